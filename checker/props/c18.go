package props

import (
	"fmt"
	"go/constant"
	"go/token"
	"strings"

	"golang.org/x/tools/go/ssa"

	"scverif/an"
)

func init() {
	register(&Prop{
		ID:          "C18",
		Title:       "Timeline algebra matches its mathematical meaning",
		Explanation: "R18.1 every value CompareAscending can return is one of the constants -1, 0, 1 (value-set analysis over its returns), and on every path of its decision tree the sign agrees with the ordered comparison of seconds, then nanos. R18.2 the cut ordering tables: belowAll / aboveAll compare as least / greatest and equal only to themselves; compareValueCuts puts every value cut above belowAll and below aboveAll, otherwise orders by timestamp and, for equal timestamps, `below` before `above`; cutPeriod maps absent bounds to the unbounded cuts and both present bounds to `below` cuts (half-open periods). R18.3 PeriodsIntersect and PeriodsConnected are false for nil periods and otherwise the conjunction lower1 ? upper2 ∧ lower2 ? upper1 with a strict comparison for Intersect and a non-strict one for Connected (hence symmetric). R18.4 no exported function of pkg/time, electricpb/segmentpb and electricpb/modepb writes through its arguments (parameter-mutation analysis with callee summaries). R18.5 running minimum/maximum accumulators compare with themselves. R18.6 a segment's Length is converted to a duration only in functions that test its presence. R18.1 also: a path that answers 0 has settled both seconds and nanos. R18.12 MinAt reaches its candidate comparison whatever MagnitudeAt's flag says (a mode without a segment at t counts as 0). Does NOT decide anything numerical: interval semantics over all endpoints, the step-function laws of Sum / Shift / Cut / ActiveAt.",
		Assumptions: []string{"timestamps are normalised (0 <= nanos < 1e9)"},
		Run:         runC18,
		Controls: []Control{
			{Name: "minat-zeroes-the-magnitude-of-a-mode-without-a-segment", Silent: true, File: "pkg/trait/electricpb/modepb/magnitude.go", Old: "\t\tmag, _ := MagnitudeAt(t, electricMode)\n", New: "\t\tmag, ok := MagnitudeAt(t, electricMode)\n\t\tif !ok {\n\t\t\tmag = 0\n\t\t}\n"},
			{Name: "later-nanos-compare-equal", File: "pkg/time/timestamp.go", Old: "\tcase t1.Nanos > t2.Nanos:\n", New: "\tcase t1.Seconds > t2.Seconds && t1.Nanos > t2.Nanos:\n", Expect: "R18.1"},
			{Name: "minat-skips-modes-without-a-segment", File: "pkg/trait/electricpb/modepb/magnitude.go", Old: "\t\tmag, _ := MagnitudeAt(t, electricMode)\n", New: "\t\tmag, ok := MagnitudeAt(t, electricMode)\n\t\tif !ok {\n\t\t\tcontinue\n\t\t}\n", Expect: "R18.12"},
			{Name: "mode-magnitude-through-the-active-index", File: "pkg/trait/electricpb/modepb/magnitude.go", Old: "\treturn segmentpb.MagnitudeAt(t.Sub(tOrST(t, mode)), mode.GetSegments()...)", New: "\t_, i := ActiveAt(t, mode)\n\tif i >= len(mode.GetSegments()) {\n\t\treturn 0, false\n\t}\n\treturn mode.GetSegments()[i].Magnitude, true", Expect: "R18.10"},
			{Name: "default-start-hoisted-out-of-the-alignment-loop", File: "pkg/trait/electricpb/modepb/sum.go", Old: "\t\tfor i, mode := range modes {\n\t\t\tst := latest\n", New: "\t\tst := latest\n\t\tfor i, mode := range modes {\n", Expect: "R18.11"},
			{Name: "revert-F67-negative-tail-dropped", File: "pkg/trait/electricpb/segmentpb/sum.go", Old: "last.Length == nil && last.Magnitude == 0", New: "last.Length == nil && last.Magnitude <= 0", Expect: "R18.9"},
			{Name: "duration-positive-by-nanos", File: "pkg/trait/electricpb/segmentpb/magnitude.go", Old: "\treturn d.AsDuration() > 0\n", New: "\treturn d.GetNanos() > 0\n", Expect: "R18.8"},
			{Name: "revert-F48-empty-period-intersects", File: "pkg/time/period.go", Old: "\tif p1lower.CompareTo(p1upper) >= 0 || p2lower.CompareTo(p2upper) >= 0 {\n\t\treturn false\n\t}\n", New: "", Expect: "R18.3"},
			{Name: "only-first-period-checked-for-emptiness", File: "pkg/time/period.go", Old: "\tif p1lower.CompareTo(p1upper) >= 0 || p2lower.CompareTo(p2upper) >= 0 {", New: "\tif p1lower.CompareTo(p1upper) >= 0 {", Expect: "R18.3"},
			{Name: "activeat-turns-away-zero", File: "pkg/trait/electricpb/segmentpb/active.go", Old: "\tif d < 0 {\n\t\treturn d, 0\n\t}", New: "\tif d <= 0 {\n\t\treturn d, 0\n\t}", Expect: "R18.7"},
			{Name: "zero-length-read-as-endless", File: "pkg/trait/electricpb/segmentpb/sum.go", Old: "\t\t\tif segment.Length == nil {\n\t\t\t\tbreak", New: "\t\t\tif segment.GetLength().AsDuration() == 0 {\n\t\t\t\tbreak", Expect: "R18.6"},
			{Name: "comparator-returns-two", File: "pkg/time/timestamp.go", Old: "\tcase t1.Seconds > t2.Seconds:\n\t\treturn 1", New: "\tcase t1.Seconds > t2.Seconds:\n\t\treturn 2", Expect: "R18.1"},
			{Name: "comparator-sign-flipped", File: "pkg/time/timestamp.go", Old: "\tcase t1.Nanos < t2.Nanos:\n\t\treturn -1", New: "\tcase t1.Nanos < t2.Nanos:\n\t\treturn 1", Expect: "R18.1"},
			{Name: "intersect-non-strict", File: "pkg/time/period.go", Old: "\treturn p1lower.CompareTo(p2upper) < 0 &&\n\t\tp2lower.CompareTo(p1upper) < 0", New: "\treturn p1lower.CompareTo(p2upper) <= 0 &&\n\t\tp2lower.CompareTo(p1upper) < 0", Expect: "R18.3"},
			{Name: "aboveall-minus-one", File: "pkg/time/cut.go", Old: "\tif that == aboveAllInstance {\n\t\treturn 0\n\t}\n\treturn 1", New: "\tif that == aboveAllInstance {\n\t\treturn 0\n\t}\n\treturn -1", Expect: "R18.2"},
			{Name: "below-after-above", File: "pkg/time/cut.go", Old: "\t} else if thisIsAbove {\n\t\treturn 1", New: "\t} else if !thisIsAbove {\n\t\treturn 1", Expect: "R18.2"},
			{Name: "closed-upper-bound", File: "pkg/time/cut.go", Old: "\t\treturn cutBelow(p.StartTime), cutBelow(p.EndTime)", New: "\t\treturn cutBelow(p.StartTime), cutAbove(p.EndTime)", Expect: "R18.2"},
			{Name: "latest-compared-with-earliest", File: "pkg/trait/electricpb/modepb/sum.go", Old: "if latest.IsZero() || st.After(latest) {", New: "if latest.IsZero() || st.After(earliest) {", Expect: "R18.5"},
			{Name: "shift-edits-input", File: "pkg/trait/electricpb/segmentpb/shift.go", Old: "\t\t\tfirst = proto.Clone(first).(*traits.ElectricMode_Segment) // clone so we don't update the original\n", New: "\t\t\t_ = proto.Clone\n", Expect: "R18.4"},
			{Name: "revert-F18-difference", File: "pkg/time/timestamp.go", Old: "\tcase t1.Nanos > t2.Nanos:\n\t\treturn 1\n\t}\n\treturn 0", New: "\tcase t1.Nanos > t2.Nanos:\n\t\treturn 1\n\t}\n\treturn int(t1.Nanos - t2.Nanos)", Expect: "R18.1"},
			{Name: "cmp-compare-idiom", Silent: true, File: "pkg/time/timestamp.go", Old: "\tswitch {\n\tcase t1.Seconds < t2.Seconds:\n\t\treturn -1\n\tcase t1.Seconds > t2.Seconds:\n\t\treturn 1\n\tcase t1.Nanos < t2.Nanos:\n\t\treturn -1\n\tcase t1.Nanos > t2.Nanos:\n\t\treturn 1\n\t}\n\treturn 0", New: "\tif t1.Seconds != t2.Seconds {\n\t\tif t1.Seconds < t2.Seconds {\n\t\t\treturn -1\n\t\t}\n\t\treturn 1\n\t}\n\tif t1.Nanos < t2.Nanos {\n\t\treturn -1\n\t}\n\tif t1.Nanos > t2.Nanos {\n\t\treturn 1\n\t}\n\treturn 0"},
		},
	})
}

func runC18(c *an.Ctx) {
	r181(c)
	r182(c)
	r183(c)
	r184(c)
	r185(c)
	r186(c)
	r187(c)
	c.Min("R18.6", 5)
	r1812(c, "R18.12")
	c.Min("R18.12", 1)
	r1811(c, "R18.11")
	c.Min("R18.11", 1)
	r1810(c, "R18.10")
	c.Min("R18.10", 4)
	r189(c, "R18.9")
	c.Min("R18.9", 2)
	r188whole(c, "R18.8")
	c.Min("R18.8", 1)
	c.Min("R18.1", 2)
	c.Min("R18.2", 10)
	c.Min("R18.3", 4)
	c.Min("R18.4", 10)
}

const timePkg = "pkg/time"

func r181(c *an.Ctx) {
	const rule = "R18.1"
	fn := mustFunc(c, rule, timePkg, "", "CompareAscending")
	if fn == nil {
		return
	}
	name := "pkg/time.CompareAscending"
	// value set: every returned value is a constant in {-1,0,1} (through phis) or the result of a function with the same guarantee
	bad := ""
	for _, r := range an.Returns(fn) {
		for _, v := range an.ValuesAt(r.Results[0]) {
			if k, ok := an.ConstInt(v); ok {
				if k < -1 || k > 1 {
					bad = fmt.Sprintf("returns the constant %d at %s", k, c.Prog.Rel(r.Pos()))
				}
				continue
			}
			if call, ok := v.(*ssa.Call); ok {
				n := an.CalleeName(call)
				if n == "cmp.Compare" || n == "strings.Compare" || n == "(time.Time).Compare" {
					continue
				}
			}
			bad = fmt.Sprintf("returns a computed value (%s) at %s", describeValue(v), c.Prog.Rel(r.Pos()))
		}
	}
	c.Check(bad == "", rule, name+"|result is -1, 0 or 1", fn.Pos(), "every return is a constant in {-1, 0, 1}", "the documented three-way comparator "+bad+": callers that test `== 1` / `== -1` or use it as a sort key misbehave (and a difference of int64 seconds can overflow int)")
	// sign: decision tree
	names := map[ssa.Value]string{fn.Params[0]: "t1", fn.Params[1]: "t2"}
	leaves := an.DecisionTree(fn, an.DTConfig{Names: names})
	c.Count("table_rows", len(leaves))
	okSign, decided := true, 0
	why := ""
	for _, l := range leaves {
		if l.Undec != "" || l.Panics || len(l.Returns) != 1 || l.Returns[0].I == nil {
			continue
		}
		got := *l.Returns[0].I
		// derive the ordering facts of this path
		rel := func(field string) int { // -1: t1<t2, 1: t1>t2, 0: equal, 9: unknown
			lt, gt, eq := "", "", ""
			for a, v := range l.AssignM {
				a2 := strings.ReplaceAll(a, " ", "")
				switch a2 {
				case "(t1." + field + "<t2." + field + ")", "(t2." + field + ">t1." + field + ")":
					lt = v
				case "(t1." + field + ">t2." + field + ")", "(t2." + field + "<t1." + field + ")":
					gt = v
				case "t1." + field + "==t2." + field, "t2." + field + "==t1." + field:
					eq = v
				// `a > b` is kept by the interpreter as the negation of `a <= b`
				case "(t1." + field + "<=t2." + field + ")":
					gt = map[string]string{"true": "false", "false": "true"}[v]
				case "(t2." + field + "<=t1." + field + ")":
					lt = map[string]string{"true": "false", "false": "true"}[v]
				}
			}
			switch {
			case lt == "true":
				return -1
			case gt == "true":
				return 1
			case eq == "true", lt == "false" && gt == "false":
				return 0
			case eq == "false" && lt == "false":
				return 1
			case eq == "false" && gt == "false":
				return -1
			}
			return 9
		}
		s, n := rel("Seconds"), rel("Nanos")
		want := int64(9)
		switch {
		case s == -1 || s == 1:
			want = int64(s)
		case s == 0 && n != 9:
			want = int64(n)
		}
		if want == 9 {
			// "equal" needs both fields: a path that answers 0 having settled only one of them calls two different
			// instants equal in one argument order (and ordered in the other)
			if got == 0 && (s == 9) != (n == 9) {
				decided++
				okSign = false
				why = fmt.Sprintf("on the path %v the result is 0 although only one of seconds and nanos is known to be equal", l.Assign)
			}
			continue
		}
		decided++
		if got != want {
			okSign = false
			why = fmt.Sprintf("on the path %v the result is %d, expected %d", l.Assign, got, want)
		}
	}
	// the order must come from the fields themselves: conversions with a limited range are not chronological
	lossy := ""
	an.Instrs(fn, func(in ssa.Instruction) {
		call, ok := in.(*ssa.Call)
		if !ok {
			return
		}
		switch n := an.CalleeName(call); n {
		case "(time.Time).UnixNano", "(time.Time).UnixMicro", "(time.Time).Sub", "(time.Duration).Nanoseconds":
			lossy = n + " at " + c.Prog.Rel(call.Pos())
		}
	})
	c.Check(lossy == "", rule, name+"|compares the timestamp fields, not a range-limited conversion", fn.Pos(), "", "the comparison goes through "+lossy+", whose int64 nanosecond range covers only the years 1678-2262 (time.Time.Sub saturates): timestamps outside it wrap or saturate and the order is no longer chronological")
	if decided == 0 {
		c.Note("R18.1: the sign of CompareAscending is computed by an idiom the decision tree cannot interpret; only the value set is decided")
		c.Ok(rule, name+"|sign follows seconds, then nanos", fn.Pos(), "not decided for this idiom (value set only)")
	} else {
		c.Check(okSign, rule, name+"|sign follows seconds, then nanos", fn.Pos(), fmt.Sprintf("%d paths", decided), "the comparator's sign contradicts the chronological order: "+why)
	}
}

func describeValue(v ssa.Value) string {
	switch x := v.(type) {
	case *ssa.Convert:
		return "conversion of " + describeValue(x.X)
	case *ssa.BinOp:
		return "`" + describeValue(x.X) + " " + x.Op.String() + " " + describeValue(x.Y) + "`"
	case *ssa.UnOp:
		if p := an.AccessPath(x); p != "" {
			return p
		}
	}
	if p := an.AccessPath(v); p != "" {
		return p
	}
	return v.Type().String() + " value"
}

func r182(c *an.Ctx) {
	const rule = "R18.2"
	intRet := func(l *an.Leaf) (int64, bool) {
		if len(l.Returns) == 1 && l.Returns[0].I != nil {
			return *l.Returns[0].I, true
		}
		return 0, false
	}
	// unbounded cuts
	for _, t := range []struct {
		typ   string
		inst  string
		else_ int64
	}{{"belowAll", "belowAllInstance", -1}, {"aboveAll", "aboveAllInstance", 1}} {
		fn := mustFunc(c, rule, timePkg, t.typ, "CompareTo")
		if fn == nil {
			continue
		}
		names := map[ssa.Value]string{fn.Params[0]: "c", fn.Params[1]: "that"}
		leaves := an.DecisionTree(fn, an.DTConfig{Names: names})
		c.Count("table_rows", len(leaves))
		ok := len(leaves) == 2
		for _, l := range leaves {
			got, isInt := intRet(l)
			same := ""
			for a, v := range l.AssignM {
				if strings.Contains(a, t.inst) && strings.Contains(a, "that") {
					same = v
				}
			}
			if !isInt || same == "" || (same == "true" && got != 0) || (same == "false" && got != t.else_) {
				ok = false
			}
		}
		c.Check(ok, rule, fmt.Sprintf("(*pkg/time.%s).CompareTo|0 against itself, %d against everything else", t.typ, t.else_), fn.Pos(), "", t.typ+" does not compare as the extreme element of the cut order")
	}
	// value cuts
	if fn := mustFunc(c, rule, timePkg, "", "compareValueCuts"); fn != nil {
		name := "pkg/time.compareValueCuts"
		names := map[ssa.Value]string{fn.Params[0]: "this", fn.Params[1]: "that"}
		leaves := an.DecisionTree(fn, an.DTConfig{Names: names})
		c.Count("table_rows", len(leaves))
		type agg struct {
			ok  bool
			n   int
			why string
		}
		rows := map[string]*agg{}
		rec := func(row string, good bool, why string) {
			a := rows[row]
			if a == nil {
				a = &agg{ok: true}
				rows[row] = a
			}
			a.n++
			if !good && a.ok {
				a.ok, a.why = false, why
			}
		}
		for _, l := range leaves {
			if l.Undec != "" || l.Panics {
				c.Unk(rule, name+"|table", fn.Pos(), l.Undec)
				return
			}
			isBelowAll, isAboveAll := "", ""
			cmpZero, flagsEq, thisAbove := "", "", ""
			for a, v := range l.AssignM {
				switch {
				case strings.Contains(a, "that.(*time.belowAll)") || strings.Contains(a, "that.(*belowAll)"):
					isBelowAll = v
				case strings.Contains(a, "that.(*time.aboveAll)") || strings.Contains(a, "that.(*aboveAll)"):
					isAboveAll = v
				case strings.Contains(a, "CompareAscending") && strings.Contains(a, "=="):
					cmpZero = v // "0==call CompareAscending(...)" or reversed
				case strings.Contains(a, "extractValue(this)#1") && strings.Contains(a, "extractValue(that)#1"):
					flagsEq = v
				case strings.HasSuffix(a, "extractValue(this)#1") && !strings.Contains(a, "=="):
					thisAbove = v
				}
			}
			ret := l.Returns[0]
			switch {
			case isBelowAll == "true":
				rec("every value cut is above belowAll", ret.I != nil && *ret.I == 1, "returns "+ret.S)
			case isAboveAll == "true":
				rec("every value cut is below aboveAll", ret.I != nil && *ret.I == -1, "returns "+ret.S)
			case cmpZero == "false":
				rec("different timestamps: ordered by the timestamp comparison", strings.Contains(ret.S, "CompareAscending") && strings.Contains(ret.S, "extractValue(this)#0") && strings.Index(ret.S, "extractValue(this)#0") < strings.Index(ret.S, "extractValue(that)#0"), "returns "+ret.S)
			case cmpZero == "true" && flagsEq == "true":
				rec("same timestamp, same side: equal", ret.I != nil && *ret.I == 0, "returns "+ret.S)
			case cmpZero == "true" && flagsEq == "false":
				want := int64(-1)
				if thisAbove == "true" {
					want = 1
				}
				rec("same timestamp: below comes before above", ret.I != nil && *ret.I == want && thisAbove != "", fmt.Sprintf("this is above: %s, returns %s", thisAbove, ret.S))
			default:
				rec("unclassified path", false, fmt.Sprint(l.Assign))
			}
		}
		for _, row := range []string{"every value cut is above belowAll", "every value cut is below aboveAll", "different timestamps: ordered by the timestamp comparison", "same timestamp, same side: equal", "same timestamp: below comes before above"} {
			if rows[row] == nil {
				c.Bad(rule, name+"|"+row, fn.Pos(), "no path implements this row")
			}
		}
		for _, row := range an.SortedKeys(rows) {
			a := rows[row]
			c.Check(a.ok, rule, name+"|"+row, fn.Pos(), fmt.Sprintf("%d path(s)", a.n), a.why)
		}
	}
	// extractValue
	if fn := mustFunc(c, rule, timePkg, "", "extractValue"); fn != nil {
		leaves := an.DecisionTree(fn, an.DTConfig{Names: map[ssa.Value]string{fn.Params[0]: "c"}})
		ok := true
		n := 0
		for _, l := range leaves {
			if l.Panics {
				continue
			}
			n++
			isBelow, isAbove := "", ""
			for a, v := range l.AssignM {
				if strings.Contains(a, "below)") && !strings.Contains(a, "belowAll") {
					isBelow = v
				}
				if strings.Contains(a, "above)") && !strings.Contains(a, "aboveAll") {
					isAbove = v
				}
			}
			flag := l.Returns[1].S
			if isBelow == "true" && flag != "false" || isBelow != "true" && isAbove == "true" && flag != "true" {
				ok = false
			}
		}
		c.Check(ok && n == 2, rule, "pkg/time.extractValue|isAbove is false for below cuts and true for above cuts", fn.Pos(), "", "extractValue reports the wrong side for a value cut")
	}
	// cutPeriod
	if fn := mustFunc(c, rule, timePkg, "", "cutPeriod"); fn != nil {
		name := "pkg/time.cutPeriod"
		leaves := an.DecisionTree(fn, an.DTConfig{Names: map[ssa.Value]string{fn.Params[0]: "p"}})
		c.Count("table_rows", len(leaves))
		ok := len(leaves) > 0
		why := ""
		for _, l := range leaves {
			if l.Undec != "" {
				ok, why = false, l.Undec
				continue
			}
			s, e := l.Get("p.StartTime==nil"), l.Get("p.EndTime==nil")
			lo, hi := l.Returns[0].S, l.Returns[1].S
			wantLo, wantHi := "call pkg/time.cutBelow(p.StartTime)", "call pkg/time.cutBelow(p.EndTime)"
			if s == "true" {
				wantLo = "call pkg/time.cutBelowAll()"
			}
			if e == "true" {
				wantHi = "call pkg/time.cutAboveAll()"
			}
			if s == "" || (s == "true" && e == "") && false {
				ok, why = false, "a path does not depend on the start bound"
			}
			if lo != wantLo || hi != wantHi {
				ok, why = false, fmt.Sprintf("start nil=%s end nil=%s gives (%s, %s), expected (%s, %s)", s, e, lo, hi, wantLo, wantHi)
			}
		}
		c.Check(ok, rule, name+"|absent bounds are unbounded cuts, present bounds are `below` cuts (half-open)", fn.Pos(), fmt.Sprintf("%d rows", len(leaves)), why)
		// the four constructors
		for _, t := range [][2]string{{"cutBelow", "below"}, {"cutAbove", "above"}} {
			f := c.Prog.Func(timePkg, "", t[0])
			if f == nil {
				continue
			}
			good := false
			for _, r := range an.Returns(f) {
				for _, v := range an.Sources(r.Results[0]) {
					if v == ssa.Value(f.Params[0]) {
						good = strings.HasSuffix(strings.TrimPrefix(typeOfMakeInterface(r.Results[0]), "*"), "."+t[1])
					}
				}
			}
			c.Check(good, rule, "pkg/time."+t[0]+"|wraps the timestamp as a `"+t[1]+"` cut", f.Pos(), "", t[0]+" does not convert its timestamp to *"+t[1])
		}
		for _, t := range [][2]string{{"cutBelowAll", "belowAllInstance"}, {"cutAboveAll", "aboveAllInstance"}} {
			f := c.Prog.Func(timePkg, "", t[0])
			if f == nil {
				continue
			}
			good := false
			for _, r := range an.Returns(f) {
				for _, v := range an.Sources(r.Results[0]) {
					if u, ok := v.(*ssa.UnOp); ok {
						if g, ok := u.X.(*ssa.Global); ok && g.Name() == t[1] {
							good = true
						}
					}
				}
			}
			c.Check(good, rule, "pkg/time."+t[0]+"|returns the singleton", f.Pos(), "", t[0]+" does not return "+t[1]+" (the unbounded cuts compare by identity)")
		}
	}
	// value cuts delegate
	for _, t := range []string{"below", "above"} {
		f := c.Prog.Func(timePkg, t, "CompareTo")
		if f == nil {
			continue
		}
		ok := false
		for _, call := range an.CallsTo(f, an.ModulePath+"/pkg/time.compareValueCuts") {
			a := call.Common().Args
			if len(a) == 2 && a[1] == ssa.Value(f.Params[1]) {
				for _, s := range an.Sources(a[0]) {
					if s == ssa.Value(f.Params[0]) {
						ok = true
					}
				}
			}
		}
		c.Check(ok, rule, "(*pkg/time."+t+").CompareTo|delegates to compareValueCuts(receiver, that)", f.Pos(), "", "does not compare (receiver, that) in this order")
	}
}

func typeOfMakeInterface(v ssa.Value) string {
	if mi, ok := v.(*ssa.MakeInterface); ok {
		return mi.X.Type().String()
	}
	return v.Type().String()
}

func r183(c *an.Ctx) {
	const rule = "R18.3"
	for _, t := range []struct {
		fn     string
		strict bool
	}{{"PeriodsIntersect", true}, {"PeriodsConnected", false}} {
		fn := mustFunc(c, rule, timePkg, "", t.fn)
		if fn == nil {
			continue
		}
		name := "pkg/time." + t.fn
		names := map[ssa.Value]string{fn.Params[0]: "p1", fn.Params[1]: "p2"}
		leaves := an.DecisionTree(fn, an.DTConfig{Names: names})
		c.Count("table_rows", len(leaves))
		okNil, okConj := true, true
		why := ""
		// comparisons of an integer with a constant are canonical in the table: `c <= 0` reads `c < 1`
		op, bound := "<=", "1"
		if t.strict {
			op, bound = "<", "0"
		}
		a1 := "(call call pkg/time.cutPeriod(p1)#0.CompareTo(call pkg/time.cutPeriod(p2)#1) < " + bound + ")"
		a2 := "(call call pkg/time.cutPeriod(p2)#0.CompareTo(call pkg/time.cutPeriod(p1)#1) < " + bound + ")"
		atoms := []string{a1, a2}
		if t.strict {
			// a non-empty common part needs non-empty periods: lower < upper for each of them as well
			atoms = append(atoms,
				"(call call pkg/time.cutPeriod(p1)#0.CompareTo(call pkg/time.cutPeriod(p1)#1) < 0)",
				"(call call pkg/time.cutPeriod(p2)#0.CompareTo(call pkg/time.cutPeriod(p2)#1) < 0)")
		}
		isAtom := map[string]bool{}
		for _, a := range atoms {
			isAtom[a] = true
		}
		nConj := 0
		for _, l := range leaves {
			if l.Undec != "" || l.Panics {
				c.Unk(rule, name+"|table", fn.Pos(), l.Undec)
				okConj = false
				continue
			}
			if l.Get("p1==nil") == "true" || l.Get("p2==nil") == "true" {
				if l.Returns[0].S != "false" {
					okNil = false
				}
				continue
			}
			nConj++
			env := map[string]bool{}
			known := true
			for a, v := range l.AssignM {
				if a == "p1==nil" || a == "p2==nil" {
					continue
				}
				if !isAtom[a] {
					known = false
					why = "the verdict depends on " + a + ", not on lower1 " + op + " upper2 and lower2 " + op + " upper1"
				}
				env[a] = v == "true"
			}
			if !known {
				okConj = false
				continue
			}
			// on every completion of the path's assignment the result is the conjunction of all the atoms
			for mask := 0; mask < 1<<len(atoms); mask++ {
				env1 := map[string]bool{}
				consistent, all := true, true
				for i, a := range atoms {
					val := mask&(1<<i) != 0
					if v, has := env[a]; has && v != val {
						consistent = false
					}
					env1[a] = val
					all = all && val
				}
				if !consistent {
					continue
				}
				got, okb := evalBool(l.Returns[0].S, env1)
				if !okb || got != all {
					okConj = false
					why = fmt.Sprintf("with %v the result is %s", env1, l.Returns[0].S)
				}
			}
		}
		// each atom decides on some path
		seen := map[string]bool{}
		for _, l := range leaves {
			for a := range l.AssignM {
				seen[a] = true
			}
			for _, a := range atoms {
				if strings.Contains(l.Returns[0].S, a) {
					seen[a] = true
				}
			}
		}
		for _, a := range atoms {
			if !seen[a] {
				okConj = false
				why = "the verdict never depends on " + a + " (for Intersect: an empty or inverted period encloses no non-empty period, so it intersects nothing)"
			}
		}
		kind := "non-strict (touching periods are connected)"
		if t.strict {
			kind = "strict (touching periods do not intersect)"
		}
		c.Check(okNil, rule, name+"|nil period: false", fn.Pos(), "", "a nil period does not yield false")
		c.Check(okConj && nConj > 0, rule, name+"|lower1 "+op+" upper2 ∧ lower2 "+op+" upper1, "+kind, fn.Pos(), fmt.Sprintf("%d paths", nConj), why)
	}
}

// r184: exported functions do not modify their arguments.
func r184(c *an.Ctx) {
	const rule = "R18.4"
	w := an.NewMutWorld(c.Prog)
	n := 0
	for _, rel := range []string{"pkg/time", "pkg/trait/electricpb/segmentpb", "pkg/trait/electricpb/modepb"} {
		sp := c.Prog.SSAPackage(rel)
		if sp == nil {
			c.Unk(rule, rel, 0, "package not found")
			continue
		}
		var names []string
		for nme := range sp.Members {
			names = append(names, nme)
		}
		sortStrings(names)
		for _, nme := range names {
			fn, ok := sp.Members[nme].(*ssa.Function)
			if !ok || !token.IsExported(nme) || len(fn.Blocks) == 0 {
				continue
			}
			var ptrParams []*ssa.Parameter
			for _, p := range fn.Params {
				switch p.Type().Underlying().(type) {
				case interface{ Elem() interface{} }:
				}
				ts := p.Type().String()
				if strings.HasPrefix(ts, "*") || strings.HasPrefix(ts, "[]") || strings.HasPrefix(ts, "map[") {
					ptrParams = append(ptrParams, p)
				}
			}
			if len(ptrParams) == 0 {
				continue
			}
			n++
			c.SawFunc(an.FuncName(fn))
			fs := w.AnalyseParams(fn, ptrParams...)
			c.Check(len(fs) == 0, rule, an.FuncName(fn)+"|does not modify its arguments", fn.Pos(), fmt.Sprintf("%d pointer/slice parameter(s)", len(ptrParams)), "an argument is written in place: "+describeFindings(c, fs))
		}
	}
	c.Count("exported_functions_checked", n)
}

func sortStrings(s []string) {
	for i := 1; i < len(s); i++ {
		for j := i; j > 0 && s[j] < s[j-1]; j-- {
			s[j], s[j-1] = s[j-1], s[j]
		}
	}
}

// r185: running minimum / maximum accumulators are compared with themselves. A loop variable `acc`
// that takes the value x under x.Before(other) / x.After(other) (or x < other / x > other) where `other`
// is a different loop variable is a slip of the variable.
func r185(c *an.Ctx) {
	const rule = "R18.5"
	n := 0
	varName := func(v ssa.Value) string {
		if ph, ok := v.(*ssa.Phi); ok {
			return ph.Comment
		}
		if u, ok := v.(*ssa.UnOp); ok && u.Op == token.MUL {
			if al, isAl := u.X.(*ssa.Alloc); isAl {
				return al.Comment
			}
		}
		return ""
	}
	for _, rel := range []string{"pkg/time", "pkg/trait/electricpb/segmentpb", "pkg/trait/electricpb/modepb"} {
		for _, fn := range c.Prog.FuncsIn(rel) {
			if c.Prog.IsGenerated(fn.Pos()) {
				continue
			}
			an.Instrs(fn, func(in ssa.Instruction) {
				ph, ok := in.(*ssa.Phi)
				if !ok || ph.Comment == "" {
					return
				}
				for i, x := range ph.Edges {
					if x == ssa.Value(ph) || varName(x) == ph.Comment {
						continue
					}
					pred := ph.Block().Preds[i]
					// the conditions that select this edge: If-predecessors of the assignment block whose
					// taken (true) branch is that block (covers `p || q` where either operand selects it)
					type sel struct {
						iff *ssa.If
					}
					var sels []sel
					u := pred
					for depth := 0; depth < 3 && len(u.Preds) == 1; depth++ {
						if _, isIf := u.Preds[0].Instrs[len(u.Preds[0].Instrs)-1].(*ssa.If); isIf {
							break
						}
						u = u.Preds[0]
					}
					for _, q := range u.Preds {
						if iff, isIf := q.Instrs[len(q.Instrs)-1].(*ssa.If); isIf && q.Succs[0] == u {
							sels = append(sels, sel{iff})
						}
					}
					for _, sl := range sels {
						e := an.CondEdge{If: sl.iff, Branch: true}
						var a, b ssa.Value
						kind := ""
						switch cond := e.If.Cond.(type) {
						case *ssa.Call:
							nm := an.CalleeName(cond)
							if (nm == "(time.Time).Before" || nm == "(time.Time).After") && len(cond.Call.Args) == 2 && e.Branch {
								a, b = cond.Call.Args[0], cond.Call.Args[1]
								kind = map[string]string{"(time.Time).Before": "minimum", "(time.Time).After": "maximum"}[nm]
							}
						case *ssa.BinOp:
							if (cond.Op == token.LSS || cond.Op == token.GTR) && e.Branch {
								a, b = cond.X, cond.Y
								kind = map[token.Token]string{token.LSS: "minimum", token.GTR: "maximum"}[cond.Op]
							}
						}
						if a == nil || a != x {
							continue
						}
						other := varName(b)
						if other == "" {
							continue
						}
						// `other` must itself be a loop variable (a phi of this function)
						if _, isPhi := b.(*ssa.Phi); !isPhi {
							continue
						}
						n++
						c.SawFunc(an.FuncName(fn))
						c.Check(other == ph.Comment, rule, fmt.Sprintf("%s|running %s `%s` compares with itself", an.FuncName(fn), kind, ph.Comment), e.If.Pos(), "",
							fmt.Sprintf("`%s` takes a new value under a comparison with `%s`, a different loop variable: it does not end up as the %s of the values seen", ph.Comment, other, kind))
					}
				}
			})
		}
	}
	if n == 0 {
		c.Note("R18.5: no running minimum/maximum found")
	}
}

// r186: a segment without a Length lasts forever; a segment with a zero Length is a present, empty step. The two
// are different readings of the step function, and the only way to tell them apart is the presence of the field.
// Every function that turns a segment's Length into a duration also asks whether that Length is present.
func r186(c *an.Ctx) {
	const rule = "R18.6"
	segType := "github.com/smart-core-os/sc-api/go/traits.ElectricMode_Segment"
	// lengthOf: v is the Length of segment S
	lengthOf := func(v ssa.Value) (seg ssa.Value, ok bool) {
		for _, s := range an.SourcesOpaque(v) {
			if base, sn, fld, isF := an.FieldOf(s); isF && fld == "Length" && sn == segType {
				return base, true
			}
			if call, isCall := s.(*ssa.Call); isCall && an.CalleeName(call) == "(*"+segType+").GetLength" && len(call.Call.Args) == 1 {
				return call.Call.Args[0], true
			}
		}
		return nil, false
	}
	// the presence test is looked for in the same function, not tied to the same SSA value: the segment may have
	// been cloned or re-sliced between the test and the conversion (Shift)
	sameSeg := func(a, b ssa.Value) bool { return true }
	n := 0
	for _, rel := range []string{"pkg/trait/electricpb/segmentpb", "pkg/trait/electricpb/modepb"} {
		for _, fn := range c.Prog.FuncsIn(rel) {
			if c.Prog.IsGenerated(fn.Pos()) || strings.HasSuffix(c.Prog.RelFile(fn.Pos()), "/th.go") {
				continue
			}
			// the nil tests of a Length in this function
			var tested []ssa.Value
			an.Instrs(fn, func(in ssa.Instruction) {
				b, ok := in.(*ssa.BinOp)
				if !ok {
					return
				}
				if x, _, isNil := an.NilTest(b); isNil {
					if seg, isLen := lengthOf(x); isLen {
						tested = append(tested, seg)
					}
				}
			})
			an.Instrs(fn, func(in ssa.Instruction) {
				call, ok := in.(*ssa.Call)
				if !ok || len(call.Call.Args) == 0 {
					return
				}
				converts := an.CalleeName(call) == "(*google.golang.org/protobuf/types/known/durationpb.Duration).AsDuration"
				if !converts {
					// a helper of the package that converts its parameter (durationPositive)
					if cal := call.Call.StaticCallee(); cal != nil && cal.Pkg == fn.Pkg && len(cal.Blocks) > 0 {
						for i, p := range cal.Params {
							if i >= len(call.Call.Args) {
								break
							}
							for _, vc := range an.CallsTo(cal, "(*google.golang.org/protobuf/types/known/durationpb.Duration).AsDuration") {
								if len(vc.Common().Args) == 1 && vc.Common().Args[0] == ssa.Value(p) {
									if seg, isLen := lengthOf(call.Call.Args[i]); isLen {
										n++
										found := false
										for _, t := range tested {
											found = found || sameSeg(t, seg)
										}
										c.SawFunc(an.FuncName(fn))
										c.Check(found, rule, an.FuncName(fn)+"|a segment's length is read only where its presence is asked", call.Pos(), "",
											"a segment's Length is converted to a duration in a function that never asks whether the Length is present: a missing length (the segment lasts forever) and a zero length (an empty step) are read alike")
									}
								}
							}
						}
					}
					return
				}
				seg, isLen := lengthOf(call.Call.Args[0])
				if !isLen {
					return
				}
				n++
				found := false
				for _, t := range tested {
					found = found || sameSeg(t, seg)
				}
				c.SawFunc(an.FuncName(fn))
				c.Check(found, rule, an.FuncName(fn)+"|a segment's length is read only where its presence is asked", call.Pos(), "",
					"a segment's Length is converted to a duration in a function that never asks whether the Length is present: a missing length (the segment lasts forever) and a zero length (an empty step) are read alike, so the segment list is no longer read as the step function it denotes")
			})
		}
	}
	c.Count("length_conversions", n)
}

// r187: time zero belongs to the step function. ActiveAt (and everything built on it: MagnitudeAt, MaxAfter, the mode
// functions, which pass 0 for modes without a start time) turns away negative offsets only: the scan over the segments
// is reachable with d == 0, so leading zero-length segments are stepped over like anywhere else.
func r187(c *an.Ctx) {
	const rule = "R18.7"
	fn := mustFunc(c, rule, "pkg/trait/electricpb/segmentpb", "", "ActiveAt")
	if fn == nil || len(fn.Params) < 1 {
		return
	}
	d := fn.Params[0]
	name := an.FuncName(fn)
	c.SawFunc(name)
	// the scan: the first conversion of a segment's length (or, failing that, any indexing of the segments)
	var scan ssa.Instruction
	an.Instrs(fn, func(in ssa.Instruction) {
		if scan == nil && an.IsCallTo(in, "(*google.golang.org/protobuf/types/known/durationpb.Duration).AsDuration") {
			scan = in
		}
	})
	if scan == nil {
		c.Unk(rule, name+"|offset zero is scanned like any other", fn.Pos(), "the scan over the segments was not recognised")
		return
	}
	lo, _, okLo, _ := an.IntBounds(d, scan)
	// a lower bound above 0 means d == 0 never reaches the scan
	c.Check(!okLo || lo <= 0, rule, name+"|offset zero is scanned like any other", scan.Pos(), "the scan is reachable with d == 0",
		fmt.Sprintf("the scan over the segments is only reached with d >= %d: at offset 0 the early return answers without stepping over leading zero-length segments, so ActiveAt(0)/MagnitudeAt(0) name a segment that occupies no time - the list is no longer read as the step function it denotes", lo))
}

// r188whole: a duration or timestamp is never judged by one of its two components. Seconds and Nanos together are the
// value; code that reads only one of them for a given message (`d.GetNanos() > 0` for "is positive") is wrong for
// every value whose other component carries the information - a whole number of seconds has Nanos == 0, so such
// segments would count as empty and Max/MaxAfter miss the real maximum of the step function. Every function of the
// time and electric packages that reads a component of a Duration/Timestamp reads both of that same message.
func r188whole(c *an.Ctx, rule string) {
	n := 0
	for _, pre := range []string{"pkg/time", "pkg/trait/electricpb"} {
		for _, fn := range c.Prog.FuncsIn(pre) {
			if c.Prog.IsGenerated(fn.Pos()) || strings.HasSuffix(c.Prog.RelFile(fn.Pos()), "_test.go") {
				continue
			}
			reads := map[ssa.Value]map[string]bool{}
			var first = map[ssa.Value]ssa.Instruction{}
			note := func(base ssa.Value, comp string, at ssa.Instruction) {
				for _, b := range an.Sources(base) {
					if reads[b] == nil {
						reads[b] = map[string]bool{}
						first[b] = at
					}
					reads[b][comp] = true
				}
			}
			an.Instrs(fn, func(in ssa.Instruction) {
				switch x := in.(type) {
				case *ssa.Call:
					cn := an.CalleeName(x)
					for _, t := range []string{"durationpb.Duration)", "timestamppb.Timestamp)"} {
						if strings.HasSuffix(cn, t+".GetSeconds") {
							note(x.Call.Args[0], "Seconds", in)
						}
						if strings.HasSuffix(cn, t+".GetNanos") {
							note(x.Call.Args[0], "Nanos", in)
						}
					}
				case *ssa.UnOp:
					if x.Op != token.MUL {
						return
					}
					if fa, ok := x.X.(*ssa.FieldAddr); ok {
						if _, sn, f, isF := an.FieldOf(fa); isF && (strings.HasSuffix(sn, "durationpb.Duration") || strings.HasSuffix(sn, "timestamppb.Timestamp")) && (f == "Seconds" || f == "Nanos") {
							note(fa.X, f, in)
						}
					}
				}
			})
			if len(reads) == 0 {
				continue
			}
			n++
			bad, where := "", fn.Pos()
			for b, comps := range reads {
				if len(comps) == 1 {
					for k := range comps {
						bad = k
					}
					where = first[b].Pos()
				}
			}
			c.Check(bad == "", rule, an.FuncName(fn)+"|a duration or timestamp is read as a whole", where, "both components of each message are read",
				"only the "+bad+" component of a duration/timestamp is read here: the value is judged without its other half (a whole number of seconds has Nanos == 0)")
		}
	}
	c.Count("component_readers", n)
}

// r189: a segment contributes nothing to the step function exactly when its magnitude IS zero. Sum drops the trailing
// open-ended segment when it has become empty, shift drops a leading one; a test `Magnitude <= 0` there also drops a
// negative open-ended level, so the sum of {2 for 5s, then -3 forever} ends after 5s and is no longer the pointwise
// sum. Every comparison of a segment's magnitude with the constant 0 in the segment package is an equality.
func r189(c *an.Ctx, rule string) {
	n := 0
	for _, fn := range c.Prog.FuncsIn("pkg/trait/electricpb/segmentpb") {
		if c.Prog.IsGenerated(fn.Pos()) || strings.HasSuffix(c.Prog.RelFile(fn.Pos()), "_test.go") {
			continue
		}
		ord := 0
		an.Instrs(fn, func(in ssa.Instruction) {
			bo, ok := in.(*ssa.BinOp)
			if !ok {
				return
			}
			isMag := func(v ssa.Value) bool {
				for _, s := range an.Sources(v) {
					if u, isU := s.(*ssa.UnOp); isU && u.Op == token.MUL {
						if _, sn, f, isF := an.FieldOf(u.X); isF && f == "Magnitude" && strings.HasSuffix(sn, "ElectricMode_Segment") {
							return true
						}
					}
				}
				return false
			}
			isZero := func(v ssa.Value) bool {
				k, isC := v.(*ssa.Const)
				return isC && k.Value != nil && constant.Sign(k.Value) == 0 && (k.Value.Kind() == constant.Float || k.Value.Kind() == constant.Int)
			}
			if !((isMag(bo.X) && isZero(bo.Y)) || (isMag(bo.Y) && isZero(bo.X))) {
				return
			}
			switch bo.Op {
			case token.EQL, token.NEQ, token.LSS, token.LEQ, token.GTR, token.GEQ:
			default:
				return
			}
			ord++
			n++
			c.SawFunc(an.FuncName(fn))
			c.Check(bo.Op == token.EQL || bo.Op == token.NEQ, rule, fmt.Sprintf("%s|zero test #%d of a magnitude is an equality", an.FuncName(fn), ord), bo.Pos(), "== 0 / != 0",
				"a segment's magnitude is compared with 0 by an inequality: a negative level is treated like an empty one, so an open-ended negative segment is dropped and the result is not the pointwise sum / the translated function")
		})
	}
	c.Count("magnitude_zero_tests", n)
}

// r1810: the mode functions read a mode as its segment list placed at its start time: each of them that has a
// namesake in the segment package (ActiveAt, MagnitudeAt, Cut, Shift, Sum) is defined through that namesake, which
// is where the step-function reading lives - the guard for offsets before the start, zero-length segments, the
// open-ended tail. A mode function re-implemented on top of another helper drops one of those cases (MagnitudeAt via
// ActiveAt's index answers every time before the start with the first segment's magnitude).
func r1810(c *an.Ctx, rule string) {
	n := 0
	seg := c.Prog.SSAPackage("pkg/trait/electricpb/segmentpb")
	if seg == nil {
		c.Unk(rule, "pkg/trait/electricpb/segmentpb", 0, "package not found")
		return
	}
	for _, fn := range c.Prog.FuncsIn("pkg/trait/electricpb/modepb") {
		if fn.Parent() != nil || fn.Object() == nil || !fn.Object().Exported() || c.Prog.IsGenerated(fn.Pos()) {
			continue
		}
		twin := seg.Func(fn.Name())
		if twin == nil {
			continue
		}
		n++
		calls := false
		for _, f := range append([]*ssa.Function{fn}, an.TransparentCalleesOf(fn, 2)...) {
			an.Instrs(f, func(in ssa.Instruction) {
				if call, ok := in.(ssa.CallInstruction); ok && call.Common().StaticCallee() == twin {
					calls = true
				}
			})
		}
		c.SawFunc(an.FuncName(fn))
		c.Check(calls, rule, an.FuncName(fn)+"|is defined through the segment function of the same name", fn.Pos(), "calls segmentpb."+fn.Name(),
			"the mode function no longer goes through segmentpb."+fn.Name()+": the step-function reading (offsets before the start, zero-length segments, the open tail) is re-implemented and a case is lost")
	}
	c.Count("mode_functions_with_a_segment_namesake", n)
}

// r1811: each mode is aligned by ITS OWN start time. In Sum's alignment loop the start time a mode is shifted by is
// made afresh in every iteration (the latest start for a mode that has none, the mode's own otherwise). Kept across
// iterations (the default hoisted out of the loop) a mode without a start time inherits the start of whichever mode
// came before it, and the sum depends on the order of its arguments.
func r1811(c *an.Ctx, rule string) {
	fn := mustFunc(c, rule, "pkg/trait/electricpb/modepb", "", "Sum")
	if fn == nil {
		return
	}
	name := an.FuncName(fn)
	c.SawFunc(name)
	n, ok := 0, true
	an.Instrs(fn, func(in ssa.Instruction) {
		call, isCall := in.(*ssa.Call)
		if !isCall || !strings.HasSuffix(an.CalleeName(call), "segmentpb.Shift") || len(call.Call.Args) == 0 {
			return
		}
		for _, d := range an.ValuesAt(call.Call.Args[0]) {
			sub, isSub := d.(*ssa.Call)
			if !isSub || !strings.HasSuffix(an.CalleeName(sub), "time.Time).Sub") || len(sub.Call.Args) != 2 {
				continue
			}
			n++
			// the receiver: no phi on the way may be carried around the loop that contains the call
			seen := map[ssa.Value]bool{}
			var walk func(v ssa.Value)
			walk = func(v ssa.Value) {
				if v == nil || seen[v] {
					return
				}
				seen[v] = true
				phi, isPhi := v.(*ssa.Phi)
				if !isPhi {
					return
				}
				for i, p := range phi.Block().Preds {
					if phi.Block().Dominates(p) && phi.Block().Dominates(call.Block()) && blockReaches(call.Block(), p) {
						// a back edge into a header of a loop around the call: the value survives an iteration
						if e := phi.Edges[i]; e != ssa.Value(phi) {
							ok = false
						}
					}
				}
				for _, e := range phi.Edges {
					walk(e)
				}
			}
			walk(sub.Call.Args[0])
		}
	})
	c.Check(ok && n > 0, rule, name+"|a mode is aligned by its own start time", fn.Pos(), "the start time is made afresh for every mode",
		"the start time a mode is shifted by is carried over from the previous iteration of the alignment loop: a mode without a start time inherits the previous mode's, so the sum depends on the order of the modes")
}

// r1812: MinAt reads a mode that has no segment at t as magnitude 0 and keeps it as a candidate (its documentation
// says so, and it is what makes the answer the minimum of the step functions, which are 0 outside their segments).
// MagnitudeAt already answers 0 there, so the candidate comparison must be reached in every iteration whatever the
// "is there a segment" flag says: a branch on that flag that skips the comparison never returns an ended or not yet
// started mode, and MinAt reports a positive minimum while some mode draws nothing.
func r1812(c *an.Ctx, rule string) {
	fn := mustFunc(c, rule, "pkg/trait/electricpb/modepb", "", "MinAt")
	if fn == nil {
		return
	}
	name := an.FuncName(fn)
	c.SawFunc(name)
	n, ok := 0, true
	an.Instrs(fn, func(in ssa.Instruction) {
		call, isCall := in.(*ssa.Call)
		if !isCall || !strings.HasSuffix(an.CalleeName(call), "MagnitudeAt") {
			return
		}
		n++
		var mag, flag ssa.Value
		for _, r := range *call.Referrers() {
			if e, isE := r.(*ssa.Extract); isE {
				if e.Index == 0 {
					mag = e
				} else {
					flag = e
				}
			}
		}
		if mag == nil {
			ok = false
			return
		}
		// the candidate comparisons: ordered comparisons that read the magnitude
		var cmps []*ssa.BasicBlock
		an.Instrs(fn, func(in2 ssa.Instruction) {
			bo, isB := in2.(*ssa.BinOp)
			if !isB || (bo.Op != token.LSS && bo.Op != token.GTR && bo.Op != token.LEQ && bo.Op != token.GEQ) {
				return
			}
			for _, op := range []ssa.Value{bo.X, bo.Y} {
				for _, s := range an.Sources(op) {
					if s == mag {
						cmps = append(cmps, bo.Block())
					}
				}
			}
		})
		if len(cmps) == 0 {
			ok = false
			return
		}
		if flag == nil {
			return
		}
		// every branch on the flag: both arms still reach a candidate comparison without starting the next iteration
		an.Instrs(fn, func(in2 ssa.Instruction) {
			iff, isIf := in2.(*ssa.If)
			if !isIf {
				return
			}
			onFlag := false
			for _, s := range an.Sources(iff.Cond) {
				if s == flag {
					onFlag = true
				}
			}
			if !onFlag {
				return
			}
			for _, succ := range iff.Block().Succs {
				reach := false
				for _, cb := range cmps {
					if reachesAvoiding(succ, cb, call.Block()) {
						reach = true
					}
				}
				if !reach {
					ok = false
				}
			}
		})
	})
	c.Check(ok && n > 0, rule, name+"|a mode without a segment at t stays a candidate", fn.Pos(), "the magnitude comparison is reached whatever MagnitudeAt's flag says",
		"a branch on MagnitudeAt's \"there is a segment\" flag skips the candidate comparison: an ended or not yet started mode (magnitude 0) is never returned, so MinAt reports a positive minimum although a mode draws nothing, and nil when no mode is active")
}

// reachesAvoiding: there is a path from a to b that does not pass through avoid (a itself may be b).
func reachesAvoiding(a, b, avoid *ssa.BasicBlock) bool {
	seen := map[*ssa.BasicBlock]bool{}
	var visit func(x *ssa.BasicBlock) bool
	visit = func(x *ssa.BasicBlock) bool {
		if x == b {
			return true
		}
		if x == avoid || seen[x] {
			return false
		}
		seen[x] = true
		for _, s := range x.Succs {
			if visit(s) {
				return true
			}
		}
		return false
	}
	return visit(a)
}

// blockReaches: there is a path from a to b in the control-flow graph.
func blockReaches(a, b *ssa.BasicBlock) bool {
	seen := map[*ssa.BasicBlock]bool{}
	var visit func(x *ssa.BasicBlock) bool
	visit = func(x *ssa.BasicBlock) bool {
		if x == b {
			return true
		}
		if seen[x] {
			return false
		}
		seen[x] = true
		for _, s := range x.Succs {
			if visit(s) {
				return true
			}
		}
		return false
	}
	return visit(a)
}
