package props

import (
	"fmt"
	"go/token"
	"strings"

	"golang.org/x/tools/go/ssa"

	"scverif/an"
)

func init() {
	register(&Prop{
		ID:          "C04",
		Title:       "With backpressure the stream is an exact, ordered edit script",
		Explanation: "R04.1 every path of Value.set / Collection.Update / Collection.Delete to a successful return passes exactly one Bus.Send and failing paths pass none. R04.2 the event built by Update is ADD exactly when the old value is absent or the item was created, ADD carries no old value; Delete emits REMOVE with the removed body. R04.3 the ChangeTime of the event is the same value the save stored as the item's change time (so WithWriteTime is honoured and a later seed reports the same instant); Delete's time comes from WriteRequest.updateTime. R04.4 seeds: only when !UpdatesOnly, sorted ascending by id, SeedValue true, LastSeedValue exactly for the last index, ChangeTime the stored change time, kind ADD; Value.Pull's seed carries both flags and the stored time. R04.5 in both forwarding loops an event is skipped only by the include verdict or by a configured equivalence. R04.6 the equivalence compares read-mask-projected values: for Value the last emitted (projected) value with the projected new one. R04.18 a single-item subscription ends only on the removal of its own item (shared with R03.7). Does NOT decide that the event sequence equals the writer's log for all histories, nor OldValue chaining.",
		Assumptions: []string{"Bus.Send delivers each event once to each live listener in order (C10)"},
		Run:         runC04,
		Controls: []Control{
			{Name: "pullid-ends-on-any-removal", File: "pkg/resource/collection.go", Old: "\t\t\tif change.Id != id {\n\t\t\t\tcontinue\n\t\t\t}\n\n\t\t\tif change.ChangeType == types.ChangeType_REMOVE {\n\t\t\t\treturn\n\t\t\t}\n", New: "\t\t\tif change.ChangeType == types.ChangeType_REMOVE {\n\t\t\t\treturn\n\t\t\t}\n\n\t\t\tif change.Id != id {\n\t\t\t\tcontinue\n\t\t\t}\n", Expect: "R04.18"},
			{Name: "zero-write-time-treated-as-unset", File: "pkg/resource/opt.go", Old: "\tif wr.writeTime != nil {\n\t\treturn *wr.writeTime", New: "\tif wr.writeTime != nil && !wr.writeTime.IsZero() {\n\t\treturn *wr.writeTime", Expect: "R04.16"},
			{Name: "initial-records-stamped-with-wall-time", File: "pkg/resource/collection.go", Old: "changeTime: conf.clock.Now()}", New: "changeTime: time.Now()}", Expect: "R04.17"},
			{Name: "value-stores-time-before-computing-it", File: "pkg/resource/value.go", Old: "\t\t\tchangeTime = request.updateTime(r.clock)\n\t\t\tr.changeTime = changeTime\n", New: "\t\t\tr.changeTime = changeTime\n\t\t\tchangeTime = request.updateTime(r.clock)\n", Expect: "this write's time"},
			{Name: "revert-F60-pullid-last-seed-from-collection", File: "pkg/resource/collection.go", Old: "LastSeedValue: change.SeedValue}", New: "LastSeedValue: change.LastSeedValue}", Expect: "R04.10"},
			{Name: "send-twice", File: "pkg/resource/collection.go", Old: "\t\tNewValue:   newValue,\n\t})\n\treturn newValue, nil", New: "\t\tNewValue:   newValue,\n\t})\n\tc.bus.Send(context.TODO(), &CollectionChange{Id: id})\n\treturn newValue, nil", Expect: "R04.1"},
			{Name: "always-update", File: "pkg/resource/collection.go", Old: "\t\tchangeType = types.ChangeType_ADD\n\t\toldValue = nil", New: "\t\toldValue = nil", Expect: "R04.2"},
			{Name: "add-keeps-old", File: "pkg/resource/collection.go", Old: "\t\tchangeType = types.ChangeType_ADD\n\t\toldValue = nil", New: "\t\tchangeType = types.ChangeType_ADD", Expect: "R04.2"},
			{Name: "last-seed-first", File: "pkg/resource/collection.go", Old: "LastSeedValue: i == lastIndex,", New: "LastSeedValue: i == lastIndex-lastIndex,", Expect: "R04.4"},
			{Name: "seed-unsorted", File: "pkg/resource/collection.go", Old: "\t\t\tsort.Slice(currentValues, func(i, j int) bool {\n\t\t\t\treturn currentValues[i].id < currentValues[j].id\n\t\t\t})\n", New: "", Expect: "R04.4"},
			{Name: "seed-time-now", File: "pkg/resource/collection.go", Old: "\t\t\t\t\tChangeTime:    value.changeTime,", New: "\t\t\t\t\tChangeTime:    c.clock.Now(),", Expect: "R04.4"},
			{Name: "skip-odd-events", File: "pkg/resource/value.go", Old: "\t\t\tif r.equivalence != nil && r.equivalence.Compare(last, change.Value) {", New: "\t\t\tif r.equivalence == nil || r.equivalence.Compare(last, change.Value) {", Expect: "R04.5"},
			{Name: "compare-before-filter", File: "pkg/resource/collection.go", Old: "\t\t\t\tif c.equivalence.Compare(last, change.NewValue) {", New: "\t\t\t\tif c.equivalence.Compare(last, event.(*CollectionChange).NewValue) {", Expect: "R04.6"},
			{Name: "held-keeps-unprojected-value", File: "pkg/resource/collection.go", Old: "\t\t\t\t} else {\n\t\t\t\t\theld[change.Id] = change.NewValue\n", New: "\t\t\t\t} else {\n\t\t\t\t\theld[change.Id] = event.(*CollectionChange).NewValue\n", Expect: "R04.6"},
		},
	})
}

func runC04(c *an.Ctx) {
	r061as(c, "R04.11") // the projection applied to events works on a copy: the event object and the stored value are shared by every subscriber (shared with R06.1)
	c.Min("R04.11", 3)
	r0113(c, "R04.12") // a subscription is opened with the options the caller gave (updates only, mask, backpressure) (shared with R01.13)
	c.Min("R04.12", 40)
	r072as(c, "R04.13") // what a write stores - and announces - is a copy: the caller's message never becomes the event's value (shared with R07.2)
	c.Min("R04.13", 4)
	r0416(c, "R04.16")
	c.Min("R04.16", 1)
	r0417(c, "R04.17")
	c.Min("R04.17", 1)
	r109(c, "R04.14") // a subscriber that keeps listening keeps getting events: the registry drops exactly the listeners whose context ended (shared with R10.9)
	c.Min("R04.14", 3)
	r167(c, "R04.15") // "equivalent" means equal in every element, the first included: a write that changes only element 0 is announced (shared with R16.7)
	c.Min("R04.15", 1)
	{
		// the seed flags of single-item subscriptions (shares the walk of R03.7; only the seed clause is reported here)
		sub := an.NewCtx(c.Prog, c.Property, c.Tier)
		r037as(sub, "R03.7", "R04.10")
		for _, o := range sub.Obls {
			if o.Rule == "R04.10" {
				c.Obls = append(c.Obls, o)
			}
		}
		c.Min("R04.10", 1)
		// a write to the subscribed item is delivered whatever happened to the other items (same walk, the clause that
		// only the item's own removal ends the stream)
		for _, o := range sub.Obls {
			if o.Rule == "R03.7" && strings.Contains(o.Key, "only the removal of the requested item") {
				o.Key = "R04.18|" + strings.TrimPrefix(o.Key, "R03.7|")
				o.Rule = "R04.18"
				c.Obls = append(c.Obls, o)
			}
		}
		c.Min("R04.18", 1)
	}
	r041(c)
	r042(c)
	r043(c)
	r044(c)
	r045(c)
	r046(c, "R04.6")
	r034(c, "R04.7")
	r062filters(c, "R04.8")
	// a subscriber that is registered keeps receiving: the bus never drops a live listener from its registry
	registryRebuild(c, "R04.9")
	c.Min("R04.9", 1)
	c.Min("R04.7", 5)
	c.Min("R04.8", 2)
	c.Min("R04.1", 6)
	c.Min("R04.2", 3)
	c.Min("R04.3", 3)
	c.Min("R04.4", 7)
	c.Min("R04.5", 2)
	c.Min("R04.6", 2)
}

func r041(c *an.Ctx) { r041as(c, "R04.1") }

func r041as(c *an.Ctx, rule string) {
	for _, t := range [][2]string{{"Value", "set"}, {"Collection", "Update"}, {"Collection", "Delete"}} {
		fn := mustFunc(c, rule, resPkg, t[0], t[1])
		if fn == nil {
			continue
		}
		name := "(*pkg/resource." + t[0] + ")." + t[1]
		// the publication itself, wherever it is written: in the function, or in a helper it delegates to (the path
		// search runs through such helpers and keeps their constant results apart: `if removed { return ok }`)
		isSend := func(in ssa.Instruction) bool { return an.IsCallTo(in, busSend) }
		nSends := 0
		an.Instrs(fn, func(in ssa.Instruction) {
			if isSend(in) {
				nSends++
			}
		})
		for _, h := range an.TransparentCalleesOf(fn, 2) {
			an.Instrs(h, func(in ssa.Instruction) {
				if isSend(in) {
					nSends++
				}
			})
		}
		okSucc, okFail, okOnce := true, true, true
		var bad ssa.Instruction
		for _, r := range an.Returns(fn) {
			errOp := r.Results[len(r.Results)-1]
			mayBeNil := false
			for _, v := range an.ValuesAt(errOp) {
				if an.IsNilConst(v) {
					mayBeNil = true
				}
			}
			if provablyNilAt(errOp, r) {
				mayBeNil = true
			}
			isR := func(in ssa.Instruction) bool { return in == ssa.Instruction(r) }
			// Delete(allow missing) returns (nil, nil) without an event: the write did nothing
			if mayBeNil {
				allNil := true
				for _, v := range an.ValuesAt(r.Results[0]) {
					if !an.IsNilConst(v) {
						allNil = false
					}
				}
				if allNil && t[1] == "Delete" {
					continue
				}
				// every path to this return passes a Send
				tgt, _ := an.PathQuery{Target: isR, Avoid: isSend}.From(fn, nil)
				if tgt != nil && provablyNilAt(errOp, r) {
					okSucc = false
					bad = r
				}
			} else {
				// definitely an error: must not lie on a path that has published, except the allow-listed timeout
				if tgt, _ := (an.PathQuery{Target: isR, Through: isSend}).From(fn, nil); tgt != nil {
					allowed := false
					for _, e := range an.GuardingEdges(r) {
						if call, ok := e.If.Cond.(*ssa.Call); ok && an.CalleeName(call) == "errors.Is" && e.Branch {
							allowed = true
						}
					}
					if sendTimeoutError(fn, r) {
						allowed = true
					}
					if !allowed {
						okFail = false
						bad = r
					}
				}
			}
		}
		// no path publishes twice
		if tgt, _ := (an.PathQuery{Target: func(in ssa.Instruction) bool { _, isRet := in.(*ssa.Return); return isRet && in.Parent() == fn }, Through: isSend, Need: 2}).From(fn, nil); tgt != nil {
			okOnce = false
			bad = tgt
		}
		pos := fn.Pos()
		if bad != nil {
			pos = bad.Pos()
		}
		c.Check(okSucc, rule, name+"|every successful return publishes", pos, "", "a successful return is reachable without passing Bus.Send: the write is committed but no event is emitted")
		c.Check(okFail && okOnce, rule, name+"|exactly one event, none on failure", pos, fmt.Sprintf("%d publish site(s)", nSends), fmt.Sprintf("a second event can be sent for one write (%v) or an error is returned after publishing (%v)", !okOnce, !okFail))
	}
}

func r042(c *an.Ctx) {
	const rule = "R04.2"
	add, upd, rem, _, okc := changeTypeConsts(c)
	fn := mustFunc(c, rule, resPkg, "Collection", "Update")
	if fn != nil && okc {
		name := "(*pkg/resource.Collection).Update"
		gaus := an.CallsTo(fn, gauName)
		if len(gaus) != 1 {
			c.Unk(rule, name+"|event kind", fn.Pos(), "GetAndUpdate call not unique")
		} else {
			gau := gaus[0].(*ssa.Call)
			names := map[ssa.Value]string{gau: "GAU"}
			// the captured `created` variable: the local cell written inside the read callback
			an.Instrs(fn, func(in ssa.Instruction) {
				if al, ok := in.(*ssa.Alloc); ok && strings.HasSuffix(an.NamedTypeName(deref(al.Type())), "proto.Message") || ok && an.NamedTypeName(deref(al.Type())) == "google.golang.org/protobuf/reflect/protoreflect.ProtoMessage" {
					cell := &an.Cell{Alloc: al}
					for _, st := range an.StoresTo(cell) {
						if st.Parent() != fn {
							names[al] = "created"
						}
					}
				}
			})
			leaves := an.DecisionTree(fn, an.DTConfig{Names: names})
			c.Count("table_rows", len(leaves))
			okKind, okOld := true, true
			detail := ""
			n := 0
			for _, l := range leaves {
				if l.Undec != "" {
					c.Unk(rule, name+"|event kind", fn.Pos(), l.Undec)
					okKind = false
					break
				}
				for _, r := range l.Recs {
					if r.Callee != "(*internal/minibus.Bus).Send" || len(r.Args) < 3 {
						continue
					}
					n++
					ev := r.Args[2]
					oldNil := l.Get("GAU#0==nil")
					createdNil := ""
					for a, v := range l.AssignM {
						if strings.HasSuffix(a, "==nil") && strings.Contains(a, "created") {
							createdNil = v
						}
					}
					wantAdd := oldNil == "true" || createdNil == "false"
					kind := symField(ev, "ChangeType")
					if wantAdd && kind != fmt.Sprint(add) || !wantAdd && kind != fmt.Sprint(upd) {
						okKind = false
						detail = fmt.Sprintf("old==nil:%s created==nil:%s -> ChangeType %s", oldNil, createdNil, kind)
					}
					ov := symField(ev, "OldValue")
					if wantAdd && !isUnset(ov) || !wantAdd && ov != "GAU#0" {
						okOld = false
						detail = fmt.Sprintf("old==nil:%s created==nil:%s -> OldValue %s", oldNil, createdNil, ov)
					}
				}
			}
			if n == 0 {
				c.Bad(rule, name+"|event kind ADD iff old absent or created", fn.Pos(), "no published event found on any path")
			} else {
				c.Check(okKind, rule, name+"|event kind ADD iff old absent or created", fn.Pos(), fmt.Sprintf("%d publishing paths", n), "the event's ChangeType is not ADD exactly when the old value is absent or the item was created: "+detail)
				c.Check(okOld, rule, name+"|ADD carries no old value, UPDATE the replaced one", fn.Pos(), "", "OldValue is not nil for ADD / not GetAndUpdate's old value for UPDATE: "+detail)
			}
		}
	}
	del := mustFunc(c, rule, resPkg, "Collection", "Delete")
	if del != nil && okc {
		for _, vc := range an.CallsToDeep(del, busSend) {
			s := vc.Inner // the publication itself (in Delete, or in the helper that holds the locked step)
			fields, _ := litFields(s.Common().Args[2])
			k, isC := an.ConstInt(fields["ChangeType"])
			_, hasNew := fields["NewValue"]
			c.Check(fields != nil && isC && k == rem && !hasNew, rule, "(*pkg/resource.Collection).Delete|event is REMOVE without new value", s.Pos(), "", "Delete's event is not a REMOVE without NewValue")
		}
	}
}

// sameSingleSource: both values resolve to one and the same SSA value.
func sameSingleSource(a, b ssa.Value) bool {
	sa, sb := an.Sources(a), an.Sources(b)
	if len(sa) != 1 || len(sb) != 1 {
		return false
	}
	return sa[0] == sb[0]
}

func r043(c *an.Ctx) {
	const rule = "R04.3"
	upq := "(" + an.ModulePath + "/pkg/resource.WriteRequest).updateTime"
	check := func(recv, meth, storedField string) {
		fn := mustFunc(c, rule, resPkg, recv, meth)
		if fn == nil {
			return
		}
		name := "(*pkg/resource." + recv + ")." + meth
		// the stored change time: a Store to field changeTime in fn, its closures, or a helper of the package they call
		scope := an.WithClosures(fn)
		for _, f := range append([]*ssa.Function(nil), scope...) {
			an.Instrs(f, func(in ssa.Instruction) {
				call, ok := in.(*ssa.Call)
				if !ok {
					return
				}
				g := call.Call.StaticCallee()
				if g == nil || g.Pkg != fn.Pkg || len(g.Blocks) == 0 || an.CalleeName(call) == upq {
					return
				}
				has := false
				an.Instrs(g, func(in2 ssa.Instruction) {
					if st, isSt := in2.(*ssa.Store); isSt {
						if _, _, fld, isF := an.FieldOf(st.Addr); isF && fld == storedField {
							has = true
						}
					}
				})
				if has {
					for _, s0 := range scope {
						if s0 == g {
							return
						}
					}
					scope = append(scope, g)
				}
			})
		}
		var stored ssa.Value
		for _, f := range scope {
			an.Instrs(f, func(in ssa.Instruction) {
				if st, ok := in.(*ssa.Store); ok {
					if _, _, fld, isF := an.FieldOf(st.Addr); isF && fld == storedField {
						stored = st.Val
					}
				}
			})
		}
		// the stored time is written on every path of the save callback (a conditional store keeps a stale time)
		for _, f := range scope {
			an.Instrs(f, func(in ssa.Instruction) {
				st, ok := in.(*ssa.Store)
				if !ok {
					return
				}
				if _, sn, fld, isF := an.FieldOf(st.Addr); !isF || fld != storedField || !(strings.HasSuffix(sn, "/pkg/resource.Value") || strings.HasSuffix(sn, "/pkg/resource.item")) {
					return
				}
				all := true
				for _, r := range an.Returns(f) {
					if !an.Dominates(st, r) {
						all = false
					}
				}
				// the value (or item) and its time are written together
				c.Check(all, rule, name+"|every save records its change time", st.Pos(), "", "the stored change time is only updated on some paths of the save callback: a write can leave a stale time behind, which a later seed reports instead of the write's time")
				// ... and what is stored is this write's time: at the store, the value is the result of
				// WriteRequest.updateTime(clock) computed before it in the same callback (not the variable's previous content)
				isTime := true
				var rs []ssa.Value
				if ld, isLoad := st.Val.(*ssa.UnOp); isLoad && ld.Op == token.MUL {
					stores, fromEntry := an.ReachingStores(ld)
					if fromEntry {
						isTime = false
					}
					for _, s0 := range stores {
						rs = append(rs, s0.Val)
					}
				} else {
					rs = append(rs, st.Val)
				}
				for _, v := range rs {
					okv := false
					for _, s0 := range an.Sources(v) {
						if call, isCall := s0.(*ssa.Call); isCall && an.CalleeName(call) == upq {
							okv = true
						}
					}
					if !okv {
						isTime = false
					}
				}
				c.Check(isTime && len(rs) > 0, rule, name+"|the stored change time is this write's time", st.Pos(), "stored = WriteRequest.updateTime(clock) of this save",
					"the change time is stored before this write's time has been computed (or from something else): the stored time is the previous content of the variable - the zero time on a first write - so a later subscriber's seed reports a different instant than the event of the same write")
			})
		}
		for _, s := range an.CallsTo(fn, busSend) {
			fields, _ := litFields(s.Common().Args[2])
			ev := fields["ChangeTime"]
			if ev == nil || stored == nil {
				c.Unk(rule, name+"|event time is the stored time", s.Pos(), "event literal or stored change time not recognised")
				continue
			}
			// (the event may take its time from what a storing helper returns: the helper's single return value)
			if srcs := an.Sources(ev); len(srcs) == 1 {
				if hc, isCall := srcs[0].(*ssa.Call); isCall && an.CalleeName(hc) != upq {
					if g := hc.Call.StaticCallee(); g != nil && g.Pkg == fn.Pkg {
						if rets := an.Returns(g); len(rets) == 1 && len(rets[0].Results) == 1 {
							ev = rets[0].Results[0]
						}
					}
				}
			}
			// (the event may take its time by reading the field back right after the save wrote it: that load yields
			// the value of the store before it in the same block)
			if srcs := an.Sources(ev); len(srcs) == 1 {
				if ld, isLd := srcs[0].(*ssa.UnOp); isLd && ld.Op == token.MUL {
					if _, _, fld, isF := an.FieldOf(ld.X); isF && fld == storedField {
						var last ssa.Value
						for _, in := range ld.Block().Instrs {
							if in == ssa.Instruction(ld) {
								break
							}
							if st, isSt := in.(*ssa.Store); isSt {
								if _, _, f2, ok2 := an.FieldOf(st.Addr); ok2 && f2 == storedField {
									last = st.Val
								}
							}
						}
						if last != nil {
							ev = last
						}
					}
				}
			}
			c.Check(sameSingleSource(ev, stored), rule, name+"|event time is the stored time", s.Pos(), "ChangeTime and the stored changeTime are one value",
				"the event's ChangeTime is computed separately from the change time stored with the value (a second clock read): the event and a later seed of the same write report different instants")
		}
	}
	check("Value", "set", "changeTime")
	check("Collection", "Update", "changeTime")
	if fn := mustFunc(c, rule, resPkg, "Collection", "Delete"); fn != nil {
		for _, vc := range an.CallsToDeep(fn, busSend) {
			s := vc.Inner
			fields, _ := litFields(s.Common().Args[2])
			ok := false
			for _, v := range an.Sources(fields["ChangeTime"]) {
				if call, isCall := v.(*ssa.Call); isCall && an.CalleeName(call) == upq {
					ok = true
				}
			}
			c.Check(ok, rule, "(*pkg/resource.Collection).Delete|event time honours WithWriteTime", s.Pos(), "ChangeTime = WriteRequest.updateTime(clock)",
				"Delete stamps its REMOVE event with the clock and ignores WithWriteTime, whose documentation promises that emitted change events use the given time")
		}
	}
}

func r044(c *an.Ctx) {
	const rule = "R04.4"
	add, _, _, _, _ := changeTypeConsts(c)
	// seeds only when !UpdatesOnly: decision tables of onUpdate
	for _, recv := range []string{"Value", "Collection"} {
		fn := mustFunc(c, rule, resPkg, recv, "onUpdate")
		if fn == nil || len(fn.Params) != 3 {
			continue
		}
		names := map[ssa.Value]string{fn.Params[0]: "r", fn.Params[1]: "ctx", fn.Params[2]: "config"}
		ok := true
		n := 0
		for _, l := range an.DecisionTree(fn, an.DTConfig{Names: names}) {
			if l.Undec != "" {
				ok = false
				continue
			}
			n++
			uo := l.Get("config.UpdatesOnly")
			snap := l.Returns[1]
			if uo == "true" && !(snap.K == "nil" || snap.S == "zero") {
				ok = false
			}
			if uo == "false" && (snap.K == "nil" || snap.S == "zero") {
				ok = false
			}
			if uo == "" {
				ok = false
			}
		}
		c.Check(ok && n > 0, rule, "(*pkg/resource."+recv+").onUpdate|snapshot iff !UpdatesOnly", fn.Pos(), fmt.Sprintf("%d rows", n), "the seed snapshot is not taken exactly when UpdatesOnly is false")
	}
	// Collection.Pull seed loop
	if fn := mustFunc(c, rule, resPkg, "Collection", "Pull"); fn != nil {
		name := "(*pkg/resource.Collection).Pull"
		for _, g := range an.GoStmts(fn) {
			f := an.GoTarget(g)
			if f == nil {
				continue
			}
			n := 0
			for _, s := range an.Sends(f) {
				var fields map[string]ssa.Value
				for _, v := range an.ValuesAt(s.Val) {
					if call, ok := v.(*ssa.Call); ok && strings.HasSuffix(an.CalleeName(call), ").filter") {
						for _, v2 := range an.ValuesAt(call.Call.Args[0]) {
							if fl, _ := litFields(v2); fl != nil {
								fields = fl
							}
						}
					}
					if fl, _ := litFields(v); fl != nil {
						fields = fl
					}
				}
				if fields == nil {
					continue
				}
				sv, isSeed := an.ConstBool(fields["SeedValue"])
				if !isSeed || !sv {
					continue
				}
				n++
				k, isC := an.ConstInt(fields["ChangeType"])
				c.Check(isC && k == add, rule, name+"|seed kind is ADD", s.Instr.Pos(), "", "seed events are not ADD")
				_, _, ft, okt := an.FieldOf(fields["ChangeTime"])
				c.Check(okt && ft == "changeTime", rule, name+"|seed time is the stored change time", s.Instr.Pos(), "", "a seed's ChangeTime is not the item's stored changeTime")
				_, _, fid, okid := an.FieldOf(fields["Id"])
				_, _, fb, okb := an.FieldOf(fields["NewValue"])
				c.Check(okid && fid == "id" && okb && fb == "body", rule, name+"|seed carries the item's id and body", s.Instr.Pos(), "", "seed Id/NewValue are not the item's id and body")
				// LastSeedValue: i == len-1
				lastOK := false
				if bo, ok := fields["LastSeedValue"].(*ssa.BinOp); ok && bo.Op == token.EQL {
					for _, pair := range [][2]ssa.Value{{bo.X, bo.Y}, {bo.Y, bo.X}} {
						idx, last := pair[0], pair[1]
						// last = len(slice) - 1
						if sub, ok := last.(*ssa.BinOp); ok && sub.Op == token.SUB {
							if one, isOne := an.ConstInt(sub.Y); isOne && one == 1 {
								if lc, ok := sub.X.(*ssa.Call); ok && an.CalleeName(lc) == "builtin len" {
									// idx is the range index over the same slice
									if isRangeIndex(idx) {
										lastOK = true
									}
								}
							}
						}
						// the same equation with the 1 on the other side: i+1 == len(slice)
						if lc, ok := last.(*ssa.Call); ok && an.CalleeName(lc) == "builtin len" {
							if add, isAdd := idx.(*ssa.BinOp); isAdd && add.Op == token.ADD {
								if one, isOne := an.ConstInt(add.Y); isOne && one == 1 && isRangeIndex(add.X) {
									lastOK = true
								}
								if one, isOne := an.ConstInt(add.X); isOne && one == 1 && isRangeIndex(add.Y) {
									lastOK = true
								}
							}
						}
					}
				}
				c.Check(lastOK, rule, name+"|LastSeedValue exactly on the final seed", s.Instr.Pos(), "LastSeedValue = (i == len-1)", "LastSeedValue is not `index == len(seeds)-1`")
				// sorted before the loop
				var slice ssa.Value
				if fa, ok := fields["Id"].(*ssa.UnOp); ok {
					_ = fa
				}
				// the ranged slice: source of the element address
				an.Instrs(f, func(in ssa.Instruction) {
					if ia, ok := in.(*ssa.IndexAddr); ok && slice == nil {
						slice = ia.X
					}
				})
				sorted := false
				why := "seed slice not found"
				if slice != nil {
					sorted, why = sortedAscendingByID(c, f, slice, s.Instr)
				}
				c.Check(sorted, rule, name+"|seeds sorted by id", s.Instr.Pos(), "", "seed events are not sent in ascending id order: "+why)
			}
			if n == 0 {
				c.Bad(rule, name+"|seed loop", f.Pos(), "no seed send found")
			}
		}
	}
	// Value.Pull seed
	if fn := mustFunc(c, rule, resPkg, "Value", "Pull"); fn != nil {
		name := "(*pkg/resource.Value).Pull"
		onu := an.CallsTo(fn, "(*"+an.ModulePath+"/pkg/resource.Value).onUpdate")
		n := 0
		for _, f := range an.WithClosures(fn) {
			an.Instrs(f, func(in ssa.Instruction) {
				al, ok := in.(*ssa.Alloc)
				if !ok {
					return
				}
				fields, _ := litFields(al)
				sv, isSeed := an.ConstBool(fields["SeedValue"])
				if fields == nil || !isSeed || !sv {
					return
				}
				n++
				lv, isL := an.ConstBool(fields["LastSeedValue"])
				timeOK, valOK := false, false
				if len(onu) == 1 {
					for _, v := range an.Sources(fields["ChangeTime"]) {
						if an.IsExtractOf(v, onu[0].(*ssa.Call), 2) {
							timeOK = true
						}
					}
					for _, v := range an.Sources(fields["Value"]) {
						if an.IsExtractOf(v, onu[0].(*ssa.Call), 1) {
							valOK = true
						}
					}
				}
				c.Check(isL && lv && timeOK && valOK, rule, name+"|seed has both flags, the snapshot value and its stored time", al.Pos(), "", "the Value seed lacks LastSeedValue, or does not carry onUpdate's snapshot value and stored change time")
			})
		}
		if n == 0 {
			c.Bad(rule, name+"|seed", fn.Pos(), "no seed event found")
		}
	}
}

func isRangeIndex(v ssa.Value) bool {
	// an ascending position: the counter of `for i := range xs` (go/ssa: phi(-1, t) with t = phi+1, used as t) or of
	// `for i := 0; …; i++` (phi(0, phi+1), used as the phi), whatever the loop is called
	counter := func(ph *ssa.Phi) (init int64, ok bool) {
		if len(ph.Edges) != 2 {
			return 0, false
		}
		for k := 0; k < 2; k++ {
			c0, isC := an.ConstInt(ph.Edges[k])
			inc, isInc := ph.Edges[1-k].(*ssa.BinOp)
			if !isC || !isInc || inc.Op != token.ADD {
				continue
			}
			one, isOne := an.ConstInt(inc.Y)
			if inc.X == ssa.Value(ph) && isOne && one == 1 {
				return c0, true
			}
		}
		return 0, false
	}
	if ph, ok := v.(*ssa.Phi); ok {
		if init, isCounter := counter(ph); isCounter && init == 0 {
			return true
		}
		if strings.HasPrefix(ph.Block().Comment, "rangeindex") {
			return true
		}
	}
	if bo, ok := v.(*ssa.BinOp); ok && bo.Op == token.ADD {
		if ph, ok := bo.X.(*ssa.Phi); ok {
			if one, isOne := an.ConstInt(bo.Y); isOne && one == 1 {
				if init, isCounter := counter(ph); isCounter && init == -1 {
					return true
				}
			}
			if strings.HasPrefix(ph.Block().Comment, "rangeindex") {
				return true
			}
		}
	}
	return false
}

// r045: skips only by configuration.
func r045(c *an.Ctx) { r045as(c, "R04.5") }

func r045as(c *an.Ctx, rule string) {
	for _, t := range [][2]string{{"Value", "Pull"}, {"Collection", "Pull"}} {
		fn := mustFunc(c, rule, resPkg, t[0], t[1])
		if fn == nil {
			continue
		}
		name := "(*pkg/resource." + t[0] + ")." + t[1]
		for _, g := range an.GoStmts(fn) {
			f := an.GoTarget(g)
			if f == nil {
				continue
			}
			var loop, body *ssa.BasicBlock
			for _, rl := range an.RecvLoops(f) {
				loop, body = rl.Header, rl.Body
			}
			if loop == nil {
				c.Unk(rule, name+"|suppression only by configuration", f.Pos(), "update loop not found")
				continue
			}
			// A "direct skip edge" is a conditional edge from which the loop header is reached without any
			// further branch or send. Exactly two kinds are allowed: include's negative verdict and a true
			// result of the configured equivalence; the `equivalence == nil` edge must not skip.
			directSkip := func(b *ssa.BasicBlock) bool {
				for depth := 0; depth < 4; depth++ {
					if b == loop {
						return true
					}
					last := b.Instrs[len(b.Instrs)-1]
					if _, isJump := last.(*ssa.Jump); !isJump {
						return false
					}
					for _, in := range b.Instrs {
						if an.IsSendSite(in) {
							return false
						}
					}
					b = b.Succs[0]
				}
				return false
			}
			bad := ""
			seen := map[*ssa.BasicBlock]bool{}
			var walk func(b *ssa.BasicBlock)
			walk = func(b *ssa.BasicBlock) {
				if seen[b] || b == loop {
					return
				}
				seen[b] = true
				for _, in := range b.Instrs {
					if an.IsSendSite(in) {
						return
					}
				}
				if iff, ok := b.Instrs[len(b.Instrs)-1].(*ssa.If); ok {
					for i, succ := range b.Succs {
						if !directSkip(succ) {
							continue
						}
						branch := i == 0
						if !allowedSkipEdge(iff.Cond, branch) {
							bad = c.Prog.Rel(iff.Pos())
						}
					}
				}
				for _, s := range b.Succs {
					walk(s)
				}
			}
			walk(body)
			c.Check(bad == "", rule, name+"|suppression only by configuration", f.Pos(), "an event is skipped only on include's negative verdict or a true result of a configured equivalence",
				"an event can be skipped by something other than the include verdict or a configured equivalence reporting equal (at "+bad+")")
		}
	}
}

// allowedSkipEdge: the edge (cond == branch) may skip an event.
func allowedSkipEdge(cond ssa.Value, branch bool) bool {
	neg := false
	for {
		if u, ok := cond.(*ssa.UnOp); ok && u.Op == token.NOT {
			neg = !neg
			cond = u.X
			continue
		}
		break
	}
	if neg {
		branch = !branch
	}
	switch x := cond.(type) {
	case *ssa.Extract:
		if call, ok := x.Tuple.(*ssa.Call); ok && strings.HasSuffix(an.CalleeName(call), "CollectionChange).include") && x.Index == 1 {
			return !branch // skip when ok == false
		}
	case *ssa.Call:
		if strings.HasSuffix(an.CalleeName(x), "pkg/resource.Comparer).Compare") {
			return branch // skip when equivalent
		}
		// a verdict computed by a local closure / a helper the rules have not seen: every way it can produce the
		// skipping answer must itself rest on an allowed condition
		if f := an.TransparentCallee(x); f != nil && f.Signature.Results().Len() == 1 {
			for _, r := range an.Returns(f) {
				for _, lf := range an.PhiLeaves(r.Results[0]) {
					if b, isC := an.ConstBool(lf.Val); isC {
						if b != branch {
							continue // the non-skipping answer
						}
						ok := false
						for _, e := range append(append([]an.CondEdge{}, lf.Conds...), an.GuardingEdges(r)...) {
							if allowedSkipEdge(e.If.Cond, e.Branch) {
								ok = true
							}
						}
						if !ok {
							return false
						}
						continue
					}
					if !allowedSkipEdge(lf.Val, branch) {
						return false
					}
				}
			}
			return true
		}
	}
	return false
}

// r046: what is compared.
func r046(c *an.Ctx, rule string) {
	// Value: Compare(last, change.Value): every source of `last` is nil or the Value of a filtered change
	if fn := mustFunc(c, rule, resPkg, "Value", "Pull"); fn != nil {
		name := "(*pkg/resource.Value).Pull"
		n := 0
		for _, f := range an.WithClosures(fn) {
			for _, call := range an.CallsIn(f, func(s string) bool { return strings.HasSuffix(s, "pkg/resource.Comparer).Compare") }) {
				n++
				args := call.Common().Args
				bad := ""
				for i, a := range args {
					for _, src := range an.Sources(a) {
						if an.IsNilConst(src) {
							continue
						}
						if isFilteredChangeValue(src) {
							continue
						}
						bad = fmt.Sprintf("operand %d can be %s (%s), which is not the Value of a read-mask-projected change", i+1, src.Name(), c.Prog.Rel(src.Pos()))
					}
				}
				c.Check(bad == "", rule, name+"|equivalence compares projected values", call.Pos(), "both operands are nil or Value of change.filter(filter)",
					"the equivalence test does not compare the last emitted (projected) value with the projected new value: "+bad+"; a subscriber with a read mask receives a change equal to what it already holds")
			}
		}
		if n == 0 {
			c.Bad(rule, name+"|equivalence compares projected values", fn.Pos(), "Value.Pull never consults the configured equivalence")
		}
	}
	if fn := mustFunc(c, rule, resPkg, "Collection", "Pull"); fn != nil {
		name := "(*pkg/resource.Collection).Pull"
		n := 0
		for _, f := range an.WithClosures(fn) {
			for _, call := range an.CallsIn(f, func(s string) bool { return strings.HasSuffix(s, "pkg/resource.Comparer).Compare") }) {
				n++
				args := call.Common().Args
				ok := len(args) == 2
				var flds []string
				// a projected field: change.<fld> with change the result of CollectionChange.filter
				projected := func(a ssa.Value) (string, bool) {
					base, _, fld, isF := an.FieldOf(a)
					if !isF {
						return "", false
					}
					for _, src := range an.Sources(base) {
						if cl, isCall := src.(*ssa.Call); isCall && strings.HasSuffix(an.CalleeName(cl), "CollectionChange).filter") {
							return fld, true
						}
					}
					return fld, false
				}
				for i, a := range args {
					if i == 0 {
						// the reference: the projected old value, or the projected value last delivered for the id
						// (looked up in a map that only ever receives projected new values)
						seen := map[ssa.Value]bool{}
						var walk func(v ssa.Value)
						walk = func(v ssa.Value) {
							if seen[v] {
								return
							}
							seen[v] = true
							switch x := v.(type) {
							case *ssa.Phi:
								for _, e := range x.Edges {
									walk(e)
								}
							case *ssa.Extract:
								walk(x.Tuple)
							case *ssa.Lookup:
								an.Instrs(f, func(in ssa.Instruction) {
									if mu, isMU := in.(*ssa.MapUpdate); isMU && mu.Map == x.X {
										if fld, isP := projected(mu.Value); !isP || fld != "NewValue" {
											ok = false
										}
									}
								})
							default:
								if an.IsNilConst(v) {
									return
								}
								if fld, isP := projected(v); !isP || fld != "OldValue" {
									ok = false
								}
							}
						}
						walk(a)
						flds = append(flds, "OldValue")
						continue
					}
					fld, isP := projected(a)
					flds = append(flds, fld)
					if !isP {
						ok = false
					}
				}
				ok = ok && len(flds) == 2 && flds[0] == "OldValue" && flds[1] == "NewValue"
				c.Check(ok, rule, name+"|equivalence compares projected old and new", call.Pos(), "Compare(held-or-filtered.OldValue, filtered.NewValue)", "the equivalence test does not compare the projected reference value (last delivered, or old) with the projected new value")
			}
		}
		if n == 0 {
			c.Bad(rule, name+"|equivalence compares projected old and new", fn.Pos(), "Collection.Pull never consults the configured equivalence")
		}
	}
}

// isFilteredChangeValue: v is a load of field Value of the result of ValueChange.filter.
func isFilteredChangeValue(v ssa.Value) bool {
	base, _, f, ok := an.FieldOf(v)
	if !ok || f != "Value" {
		return false
	}
	for _, s := range an.Sources(base) {
		if call, ok := s.(*ssa.Call); ok && strings.HasSuffix(an.CalleeName(call), "ValueChange).filter") {
			return true
		}
	}
	return false
}

// r0416: a write's time is the one the caller gave, whenever one was given. WriteRequest.updateTime has exactly two
// rows: writeTime == nil -> clock.Now(), otherwise *writeTime. Any further condition (treating the zero time as
// "not given") makes events carry the clock's time although WithWriteTime named another.
func r0416(c *an.Ctx, rule string) {
	fn := mustFunc(c, rule, resPkg, "WriteRequest", "updateTime")
	if fn == nil {
		return
	}
	name := an.FuncName(fn)
	c.SawFunc(name)
	leaves := an.DecisionTree(fn, an.DTConfig{Names: map[ssa.Value]string{fn.Params[0]: "wr", fn.Params[1]: "clock"}})
	ok, why := len(leaves) == 2, fmt.Sprintf("%d rows", len(leaves))
	for _, l := range leaves {
		if l.Undec != "" {
			ok, why = false, l.Undec
			continue
		}
		if len(l.AssignM) != 1 {
			ok, why = false, fmt.Sprintf("a row depends on %d conditions: %v", len(l.AssignM), l.Assign)
		}
		for a := range l.AssignM {
			if !strings.Contains(a, "writeTime") || !strings.Contains(a, "nil") {
				ok, why = false, "a row depends on "+a
			}
		}
	}
	c.Check(ok, rule, name+"|the given write time is used whenever one was given", fn.Pos(), "writeTime == nil -> clock.Now(); otherwise *writeTime",
		"updateTime does not decide on `writeTime == nil` alone ("+why+"): for some given time the event and the stored change time come from the clock instead")
}

// r0417: the resource package reads the time from its clock. The only direct calls of time.Now() are the real clock's
// own Now and the seed of the default random source; anything else (the change time of initial records) ignores
// WithClock, so seeds carry wall time next to events that carry the configured clock's.
func r0417(c *an.Ctx, rule string) {
	n := 0
	for _, fn := range c.Prog.FuncsIn(resPkg) {
		if strings.HasSuffix(c.Prog.RelFile(fn.Pos()), "_test.go") {
			continue
		}
		an.Instrs(fn, func(in ssa.Instruction) {
			call, ok := in.(*ssa.Call)
			if !ok || an.CalleeName(call) != "time.Now" {
				return
			}
			n++
			okUse := false
			// the real clock: a method named Now
			if fn.Name() == "Now" && fn.Signature.Recv() != nil {
				okUse = true
			}
			// a seed: the result only feeds (Time).Unix/UnixNano
			all, any := true, false
			for _, u := range an.Referrers(call) {
				if _, isDbg := u.(*ssa.DebugRef); isDbg {
					continue
				}
				uc, isCall := u.(*ssa.Call)
				if isCall && (strings.HasSuffix(an.CalleeName(uc), "time.Time).Unix") || strings.HasSuffix(an.CalleeName(uc), "time.Time).UnixNano")) {
					any = true
					continue
				}
				all = false
			}
			if all && any {
				okUse = true
			}
			c.SawFunc(an.FuncName(fn))
			c.Check(okUse, rule, fmt.Sprintf("%s|time.Now() only as the real clock or a seed", an.FuncName(fn)), call.Pos(), "",
				"the resource package reads the wall clock directly: this time ignores WithClock, so it disagrees with the change times of events (initial records seeded with wall time next to a configured clock)")
		})
	}
	c.Count("direct_time_now_calls", n)
}
