package props

import (
	"strings"

	"golang.org/x/tools/go/ssa"

	"scverif/an"
)

// shareAs runs a rule of another property in a scratch context and adopts its obligations under this property's
// own rule id (the construct and clause stay; the key becomes newRule|construct|clause). keep selects obligations by
// their construct (nil keeps all). Returns how many were adopted.
func shareAs(c *an.Ctx, rule, newRule string, run func(sub *an.Ctx), keep func(construct string) bool) int {
	sub := an.NewCtx(c.Prog, c.Property, c.Tier)
	run(sub)
	n := 0
	for _, o := range sub.Obls {
		if o.Rule != rule || (keep != nil && !keep(o.Construct)) {
			continue
		}
		o.Key = newRule + "|" + strings.TrimPrefix(o.Key, rule+"|")
		o.Rule = newRule
		c.Obls = append(c.Obls, o)
		n++
	}
	return n
}

// mergeOfParams: g is a helper that puts one of its parameters back into another: its body calls
// proto.Merge(g.Params[dst], g.Params[src]); resetFirst says whether a proto.Reset of the same destination dominates
// that merge. (The restore of a refused write extracted into a function of its own.)
func mergeOfParams(g *ssa.Function) (dst, src int, resetFirst, ok bool) {
	if g == nil || len(g.Blocks) == 0 {
		return 0, 0, false, false
	}
	paramIdx := func(v ssa.Value) int {
		for depth := 0; depth < 4; depth++ {
			switch x := v.(type) {
			case *ssa.MakeInterface:
				v = x.X
			case *ssa.ChangeInterface:
				v = x.X
			case *ssa.ChangeType:
				v = x.X
			}
		}
		for _, s0 := range append(an.Sources(v), an.SourcesOpaque(v)...) {
			for i, p := range g.Params {
				if s0 == ssa.Value(p) {
					return i
				}
			}
		}
		return -1
	}
	var merge *ssa.Call
	an.Instrs(g, func(in ssa.Instruction) {
		call, isCall := in.(*ssa.Call)
		if !isCall || !strings.HasSuffix(an.CalleeName(call), "protobuf/proto.Merge") || len(call.Call.Args) != 2 {
			return
		}
		d, s0 := paramIdx(call.Call.Args[0]), paramIdx(call.Call.Args[1])
		if d >= 0 && s0 >= 0 && d != s0 {
			merge, dst, src = call, d, s0
		}
	})
	if merge == nil {
		return 0, 0, false, false
	}
	an.Instrs(g, func(in ssa.Instruction) {
		rc, isCall := in.(*ssa.Call)
		if isCall && strings.HasSuffix(an.CalleeName(rc), "protobuf/proto.Reset") && len(rc.Call.Args) == 1 && paramIdx(rc.Call.Args[0]) == dst && an.Dominates(rc, merge) {
			resetFirst = true
		}
	})
	return dst, src, resetFirst, true
}
