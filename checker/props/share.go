package props

import (
	"strings"

	"scverif/an"
)

// shareAs runs a rule of another property in a scratch context and adopts its obligations under this property's
// own rule id (the construct and clause stay; the key becomes newRule|construct|clause). keep selects obligations by
// their construct (nil keeps all). Returns how many were adopted.
func shareAs(c *an.Ctx, rule, newRule string, run func(sub *an.Ctx), keep func(construct string) bool) int {
	sub := an.NewCtx(c.Prog, c.Property, c.Tier)
	run(sub)
	n := 0
	for _, o := range sub.Obls {
		if o.Rule != rule || (keep != nil && !keep(o.Construct)) {
			continue
		}
		o.Key = newRule + "|" + strings.TrimPrefix(o.Key, rule+"|")
		o.Rule = newRule
		c.Obls = append(c.Obls, o)
		n++
	}
	return n
}
