package props

import (
	"fmt"
	"go/token"
	"go/types"
	"strings"

	"golang.org/x/tools/go/ssa"

	"scverif/an"
)

func init() {
	register(&Prop{
		ID:          "C05",
		Title:       "Writes respect update, writable-field and reset masks",
		Explanation: "R05.1 Value.set and Collection.Update build one FieldUpdater from the request, validate the written message with it before GetAndUpdate and hand the same updater to the change function. R05.2 Validate's decision table: an update mask with unknown paths or with paths outside the writable fields is rejected with InvalidArgument, anything else passes. R05.3 WriteRequest.fieldUpdater's table: all-writable override or nil resource mask mean no writable restriction, otherwise the union of resource and per-call writable fields; update and reset masks are always passed on. R05.4 the frame of FieldUpdater.Merge on every path of its decision tree: nothing-writable and empty-mask paths never write dst; src is filtered by the writable mask and by the update mask before proto.Merge(dst, src); dst is cleared (entirely only when nothing restricts writing, otherwise only the writable fields) only when there is no update mask and before the merge; the reset mask prunes dst after the merge. R05.5 pruneEmpty visits every field (its Range callback never stops the iteration) and recurses only into singular messages. The read-only test compares paths on whole segments (prefix tests end in the separator). Does NOT decide the field-by-field semantics of fmutils / proto.Merge on nested paths, oneofs, maps and repeated fields (third-party code, runtime message shapes).",
		Assumptions: []string{"fmutils.NestedMask.Filter keeps exactly the masked fields, Prune clears exactly the masked fields, proto.Merge copies set fields of src into dst, protoreflect Range stops when the callback returns false"},
		Run:         runC05,
		Controls: []Control{
			{Name: "prune-empty-descends-into-maps", File: "pkg/masks/update.go", Old: "\t\tif d.Kind() == protoreflect.MessageKind && d.Cardinality() != protoreflect.Repeated {\n\t\t\tpruneEmpty(", New: "\t\tif d.Kind() == protoreflect.MessageKind && !d.IsList() {\n\t\t\tpruneEmpty(", Expect: "R05.13"},
			{Name: "more-writable-replaces", File: "pkg/resource/opt.go", Old: "\t\trequest.moreWritableFields = fieldmaskpb.Union(request.moreWritableFields, writableFields)\n", New: "\t\trequest.moreWritableFields = writableFields\n", Expect: "R05.11"},
			{Name: "absent-part-filtered-not-pruned", File: "pkg/masks/update.go", Old: "\t\t\t\tfieldMask.Prune(dstPr.Get(d).Message().Interface())\n", New: "\t\t\t\tfieldMask.Filter(dstPr.Get(d).Message().Interface())\n", Expect: "R05.5"},
			{Name: "intersect-keeps-the-empty-side", File: "pkg/masks/update.go", Old: "\t\tcase len(am) == 0:\n\t\t\tres[name] = bm\n", New: "\t\tcase len(am) == 0:\n\t\t\tres[name] = am\n", Expect: "R05.9"},
			{Name: "create-merges-into-the-written-message", File: "pkg/resource/collection.go", Old: "\t\t\tcreated = msg.ProtoReflect().New().Interface()\n", New: "\t\t\tcreated = msg\n", Expect: "R05.10"},
			{Name: "first-write-merges-into-the-written-message", File: "pkg/resource/opt.go", Old: "\t\t\tdst = value.ProtoReflect().New().Interface()\n", New: "\t\t\tdst = value\n", Expect: "R05.10"},
			{Name: "revert-F61-clear-by-update-mask-alone", File: "pkg/masks/update.go", Old: "\tpruneEmpty(dst, src, clearMask)\n", New: "\t_ = clearMask\n\tpruneEmpty(dst, src, nestedMask)\n", Expect: "R05.9"},
			{Name: "revert-F54-update-mask-raw", File: "pkg/masks/update.go", Old: "fmutils.NestedMaskFromPaths(normalPaths(mask.GetPaths()))", New: "fmutils.NestedMaskFromPaths(mask.GetPaths())", Expect: "R05.8"},
			{Name: "reset-mask-raw", File: "pkg/masks/update.go", Old: "fmutils.Prune(dst, normalPaths(f.resetMask.Paths))", New: "fmutils.Prune(dst, f.resetMask.Paths)", Expect: "R05.8"},
			{Name: "normal-paths-without-normalize", File: "pkg/masks/update.go", Old: "\tmask.Normalize()\n\treturn mask.Paths\n", New: "\treturn mask.Paths\n", Expect: "R05.8"},
			{Name: "normalise-inline", Silent: true, File: "pkg/masks/update.go", Old: "\tnestedMask := fmutils.NestedMaskFromPaths(normalPaths(mask.GetPaths()))\n", New: "\tnormal := &fieldmaskpb.FieldMask{Paths: append([]string(nil), mask.GetPaths()...)}\n\tnormal.Normalize()\n\tnestedMask := fmutils.NestedMaskFromPaths(normal.Paths)\n"},
			{Name: "more-update-mask-widens-nil", File: "pkg/resource/opt.go", Old: "\t\tif request.UpdateMask == nil {\n\t\t\treturn // a nil update mask means all fields are writable anyway\n\t\t}\n", New: "", Expect: "R05.7"},
			{Name: "overlap-by-raw-prefix", File: "pkg/masks/update.go", Old: "if path == p || strings.HasPrefix(path, p+\".\") || strings.HasPrefix(p, path+\".\") {", New: "if strings.HasPrefix(path, p) || strings.HasPrefix(p, path) {", Expect: "R05.2"},
			{Name: "remove-validate", File: "pkg/resource/value.go", Old: "\tif err := writer.Validate(value); err != nil {\n\t\treturn nil, err\n\t}\n", New: "", Expect: "R05.1"},
			{Name: "other-updater", File: "pkg/resource/collection.go", Old: "\t\twriteRequest.changeFn(writer, msg),", New: "\t\twriteRequest.changeFn(writeRequest.fieldUpdater(nil), msg),", Expect: "R05.1"},
			{Name: "readonly-as-internal", File: "pkg/masks/update.go", Old: "return status.Errorf(codes.InvalidArgument, \"%v mentions read-only fields\", f.updateMaskFieldName)", New: "return status.Errorf(codes.Internal, \"%v mentions read-only fields\", f.updateMaskFieldName)", Expect: "R05.2"},
			{Name: "readonly-not-checked", File: "pkg/masks/update.go", Old: "\t\t\t\tif !overlapsAny(path, f.writableFields.Paths) {", New: "\t\t\t\tif !overlapsAny(path, f.updateMask.Paths) {", Expect: "R05.2"},
			{Name: "revert-F30-count-heuristic", File: "pkg/masks/update.go", Old: "\t\t\tfor _, path := range f.updateMask.Paths {\n\t\t\t\tif !overlapsAny(path, f.writableFields.Paths) {\n\t\t\t\t\treturn status.Errorf(codes.InvalidArgument, \"%v mentions read-only fields\", f.updateMaskFieldName)\n\t\t\t\t}\n\t\t\t}\n", New: "\t\t\tcommon := f.fullMask()\n\t\t\tif len(common.Paths) != len(f.updateMask.Paths) {\n\t\t\t\treturn status.Errorf(codes.InvalidArgument, \"%v mentions read-only fields\", f.updateMaskFieldName)\n\t\t\t}\n", Expect: "R05.2"},
			{Name: "revert-F29-clear-whole-parent", File: "pkg/masks/update.go", Old: "\t\t\tif len(fieldMask) == 0 {\n\t\t\t\t// the mask names the whole field\n\t\t\t\tdstPr.Clear(d)\n\t\t\t} else if", New: "\t\t\tif true {\n\t\t\t\tdstPr.Clear(d)\n\t\t\t} else if", Expect: "R05.5"},
			{Name: "ignore-more-writable", File: "pkg/resource/opt.go", Old: "fields := fieldmaskpb.Union(writableFields, wr.moreWritableFields)", New: "fields := fieldmaskpb.Union(writableFields, writableFields)", Expect: "R05.3"},
			{Name: "merge-before-filter", File: "pkg/masks/update.go", Old: "\tnestedMask.Filter(src)\n\tproto.Merge(dst, src)\n", New: "\tproto.Merge(dst, src)\n\tnestedMask.Filter(src)\n", Expect: "R05.4"},
			{Name: "reset-before-merge", File: "pkg/masks/update.go", Old: "\tproto.Merge(dst, src)\n\n\t// if a field mentioned by the mask is nil, we should clear it, as far as it is writable\n", New: "\tif f.resetMask != nil {\n\t\tfmutils.Prune(dst, normalPaths(f.resetMask.Paths))\n\t\tf = &FieldUpdater{writableFields: f.writableFields, updateMask: f.updateMask}\n\t}\n\tproto.Merge(dst, src)\n\n", Expect: "R05.4"},
			{Name: "reset-with-mask", File: "pkg/masks/update.go", Old: "\tmask := f.updateMask\n\tif mask == nil {\n", New: "\tmask := f.updateMask\n\tif mask == nil || len(mask.GetPaths()) > 1 {\n", Expect: "R05.4"},
			{Name: "prune-stops-early", File: "pkg/masks/update.go", Old: "\t\t\t\tfieldMask.Prune(dstPr.Get(d).Message().Interface())\n\t\t\t}\n\t\t\treturn true", New: "\t\t\t\tfieldMask.Prune(dstPr.Get(d).Message().Interface())\n\t\t\t}\n\t\t\treturn false", Expect: "R05.5"},
			{Name: "validate-twice", Silent: true, File: "pkg/resource/value.go", Old: "\tif err := writer.Validate(value); err != nil {\n\t\treturn nil, err\n\t}\n", New: "\tif err := writer.Validate(value); err != nil {\n\t\treturn nil, err\n\t}\n\tif err := writer.Validate(value); err != nil {\n\t\treturn nil, err\n\t}\n"},
		},
	})
}

func runC05(c *an.Ctx) {
	r065as(c, "R05.6") // mask paths are compared by whole segments everywhere in pkg/masks (shared with R06.5)
	c.Min("R05.6", 2)
	r057(c)
	c.Min("R05.7", 1)
	r051(c)
	r052(c)
	r053(c)
	r054(c)
	r055(c, "R05.5")
	c.Min("R05.1", 4)
	c.Min("R05.2", 4)
	c.Min("R05.3", 3)
	c.Min("R05.4", 10)
	r058(c, "R05.8")
	c.Min("R05.8", 3)
	r0117as(c, "R05.14") // what a masked write stores is the merged message, not the request (shared with R01.17)
	c.Min("R05.14", 2)
	r0513(c, "R05.13")
	c.Min("R05.13", 2)
	r068(c, "R05.12") // an empty writable / update mask is not "no mask" (shared with R06.8)
	c.Min("R05.12", 3)
	r059intersect(c, "R05.9")
	r0510(c, "R05.10")
	r0511(c, "R05.11")
	c.Min("R05.11", 2)
	c.Min("R05.10", 2)
	c.Min("R05.9", 2)
	c.Min("R05.5", 2)
}

const updaterMerge = "(*" + an.ModulePath + "/pkg/masks.FieldUpdater).Merge"
const updaterValidate = "(*" + an.ModulePath + "/pkg/masks.FieldUpdater).Validate"

func r051(c *an.Ctx) {
	const rule = "R05.1"
	fuq := "(" + an.ModulePath + "/pkg/resource.WriteRequest).fieldUpdater"
	cfq := "(" + an.ModulePath + "/pkg/resource.WriteRequest).changeFn"
	for _, t := range [][2]string{{"Value", "set"}, {"Collection", "Update"}} {
		fn := mustFunc(c, rule, resPkg, t[0], t[1])
		if fn == nil {
			continue
		}
		name := "(*pkg/resource." + t[0] + ")." + t[1]
		// (each step may sit in a helper set/Update hands its values to: store(value, request, writer))
		ups := deepInner(an.CallsToDeep(fn, fuq))
		vals := deepInner(an.CallsToDeep(fn, updaterValidate))
		cfs := deepInner(an.CallsToDeep(fn, cfq))
		gaus := deepInner(an.CallsToDeep(fn, gauName))
		if len(ups) == 0 || len(vals) == 0 || len(cfs) == 0 || len(gaus) == 0 {
			c.Bad(rule, name+"|one updater validates and merges", fn.Pos(), fmt.Sprintf("fieldUpdater/Validate/changeFn/GetAndUpdate call sites: %d/%d/%d/%d", len(ups), len(vals), len(cfs), len(gaus)))
			continue
		}
		fromUpdater := func(v ssa.Value) ssa.Value {
			for _, s := range an.ValuesAt(v) {
				for _, u := range ups {
					if s == u.(*ssa.Call) {
						return s
					}
				}
			}
			return nil
		}
		same := true
		var theUpdater ssa.Value
		for _, v := range vals {
			u := fromUpdater(v.Common().Args[0])
			if u == nil {
				same = false
			}
			theUpdater = u
		}
		for _, cf := range cfs {
			// changeFn(writer, value): receiver is arg 0 for value receivers
			args := cf.Common().Args
			u := fromUpdater(args[len(args)-2])
			if u == nil || u != theUpdater {
				same = false
			}
		}
		c.Check(same, rule, name+"|one updater validates and merges", fn.Pos(), "Validate and changeFn use the FieldUpdater built by request.fieldUpdater(resource writable fields)",
			"the FieldUpdater that validates the update mask is not the one the change function merges with: a mask can pass validation and still write read-only fields (or the reverse)")
		// the written message is what is validated and merged
		okMsg := true
		for _, v := range vals {
			for _, cf := range cfs {
				a := cf.Common().Args
				if !sameSingleSource(v.Common().Args[1], a[len(a)-1]) {
					okMsg = false
				}
			}
		}
		c.Check(okMsg, rule, name+"|the validated message is the written message", fn.Pos(), "", "Validate and changeFn are given different messages")
		// fieldUpdater receives the resource's writable fields
		for _, u := range ups {
			a := u.Common().Args
			_, _, f, ok := an.FieldOf(a[len(a)-1])
			c.Check(ok && f == "writableFields", rule, name+"|updater built from the resource's writable fields", u.Pos(), "", "fieldUpdater is not given the resource's configured writable fields")
		}
	}
}

// maskRow finds the leaves consistent with the given atom values.
func leavesWhere(leaves []*an.Leaf, want map[string]string) []*an.Leaf {
	var out []*an.Leaf
	for _, l := range leaves {
		ok := true
		for a, v := range want {
			if got := l.Get(a); got != "" && got != v {
				ok = false
			}
			if l.Get(a) == "" && v != "*" {
				// the path did not depend on the atom: consistent with any value
			}
		}
		if ok {
			out = append(out, l)
		}
	}
	return out
}

func r052(c *an.Ctx) {
	const rule = "R05.2"
	fn := mustFunc(c, rule, "pkg/masks", "FieldUpdater", "Validate")
	if fn == nil {
		return
	}
	name := "(*pkg/masks.FieldUpdater).Validate"
	fieldTest := func(e an.CondEdge, field string, wantNonNil bool) bool {
		x, trueMeansNil, ok := an.NilTest(e.If.Cond)
		if !ok {
			return false
		}
		if _, _, f, isF := an.FieldOf(x); !isF || f != field {
			return false
		}
		return (e.Branch != trueMeansNil) == wantNonNil
	}
	var unknownRej, readOnlyRej []*ssa.Return
	badCode := ""
	for _, r := range errorReturnsDeep(fn) {
		var hasU, hasW, hasReset, invalidEdge bool
		for _, e := range an.GuardingEdges(r) {
			if fieldTest(e, "updateMask", true) {
				hasU = true
			}
			if fieldTest(e, "writableFields", true) {
				hasW = true
			}
			if fieldTest(e, "resetMask", true) {
				hasReset = true
			}
			if call, ok := e.If.Cond.(*ssa.Call); ok && strings.HasSuffix(an.CalleeName(call), "FieldMask).IsValid") && !e.Branch {
				if _, _, f, isF := an.FieldOf(call.Call.Args[0]); isF && f == "updateMask" {
					invalidEdge = true
				}
			}
		}
		if hasReset && !hasU {
			continue // server-side reset mask problems are not client errors
		}
		cd, isSt := statusCodeOf(c, r.Results[0])
		if !isSt || cd != an.CodeInvalidArgument {
			badCode = c.Prog.Rel(r.Pos())
		}
		switch {
		case hasU && invalidEdge:
			unknownRej = append(unknownRej, r)
		case hasU && hasW:
			readOnlyRej = append(readOnlyRej, r)
		}
	}
	c.Check(badCode == "", rule, name+"|rejections are InvalidArgument", fn.Pos(), "", "an update mask rejection at "+badCode+" does not carry codes.InvalidArgument")
	c.Check(len(unknownRej) > 0, rule, name+"|unknown paths: InvalidArgument", fn.Pos(), "", "no rejection guarded by !updateMask.IsValid(message): masks naming unknown fields are accepted")
	if len(readOnlyRej) == 0 {
		c.Bad(rule, name+"|paths outside the writable fields: InvalidArgument", fn.Pos(), "no rejection that depends on both the update mask and the writable fields: masks naming read-only fields are accepted")
	}
	for _, r := range readOnlyRej {
		// the deciding condition depends on both masks and is not a mere comparison of path counts
		var deciding *ssa.If
		for _, e := range an.GuardingEdges(r) {
			if _, _, isNil := an.NilTest(e.If.Cond); isNil {
				continue
			}
			if deciding == nil || deciding.Block().Dominates(e.If.Block()) {
				deciding = e.If
			}
		}
		cons := name + "|paths outside the writable fields: InvalidArgument"
		if deciding == nil {
			c.Bad(rule, cons, r.Pos(), "the read-only rejection does not depend on the masks' paths")
			continue
		}
		cardinality := false
		if bo, ok := deciding.Cond.(*ssa.BinOp); ok {
			isLen := func(v ssa.Value) bool {
				call, ok := v.(*ssa.Call)
				return ok && an.CalleeName(call) == "builtin len"
			}
			if isLen(bo.X) && isLen(bo.Y) {
				cardinality = true
			}
		}
		// data dependence on both masks: walk operands backwards
		depU, depW := false, false
		seen := map[ssa.Value]bool{}
		var walk func(v ssa.Value, depth int)
		walk = func(v ssa.Value, depth int) {
			if v == nil || seen[v] || depth > 12 {
				return
			}
			seen[v] = true
			if _, _, f, ok := an.FieldOf(v); ok {
				if f == "updateMask" {
					depU = true
				}
				if f == "writableFields" {
					depW = true
				}
			}
			if call, ok := v.(*ssa.Call); ok && strings.HasSuffix(an.CalleeName(call), "FieldUpdater).fullMask") {
				depU, depW = true, true
			}
			// a predicate handed to a library search (slices.ContainsFunc(mask.Paths, f.readOnly)): what its body reads
			if body := an.ClosureFn(v); body != nil {
				for _, g := range append(an.WithClosures(body), an.TransparentCalleesOf(body, 2)...) {
					an.Instrs(g, func(in ssa.Instruction) {
						if fa, isFA := in.(*ssa.FieldAddr); isFA {
							switch _, _, f, _ := an.FieldOf(fa); f {
							case "updateMask":
								depU = true
							case "writableFields":
								depW = true
							}
						}
					})
				}
			}
			if in, ok := v.(ssa.Instruction); ok {
				var ops []*ssa.Value
				for _, op := range in.Operands(ops) {
					if op != nil && *op != nil {
						walk(*op, depth+1)
					}
				}
			}
		}
		walk(deciding.Cond, 0)
		c.Check(depU && depW && !cardinality, rule, cons, deciding.Pos(), "the rejection depends on the update mask's and the writable fields' paths",
			fmt.Sprintf("the read-only test depends on update mask: %v, writable fields: %v, is a comparison of path counts: %v - equal cardinality of the mask and of its intersection with the writable fields does not mean every path is writable (e.g. {a, b} against writable {a.x, a.y}: the read-only b is accepted and then cleared)", depU, depW, cardinality))
	}
	// path overlap is decided on whole path segments: wherever the read-only test compares paths by prefix, the prefix
	// ends in the separator ("level" must not cover "level_change_time")
	{
		var scope []*ssa.Function
		seenF := map[*ssa.Function]bool{}
		add := func(f *ssa.Function) {
			for _, g := range an.WithClosures(f) {
				if !seenF[g] {
					seenF[g] = true
					scope = append(scope, g)
				}
			}
		}
		add(fn)
		for _, h := range an.TransparentCalleesOf(fn, 2) {
			add(h)
		}
		for _, g := range c.Prog.FuncsIn("pkg/masks") {
			if g.Name() == "overlapsAny" {
				add(g)
			}
		}
		for i := 0; i < len(scope); i++ { // helpers of the helpers (a predicate method calling overlapsAny)
			for _, h := range an.TransparentCalleesOf(scope[i], 1) {
				add(h)
			}
		}
		nPrefix, whole := 0, true
		var where token.Pos
		for _, g := range scope {
			for _, cl := range an.CallsTo(g, "strings.HasPrefix") {
				nPrefix++
				pre := cl.Common().Args[1]
				ok := false
				if bo, isBO := pre.(*ssa.BinOp); isBO && bo.Op == token.ADD {
					if k, isC := bo.Y.(*ssa.Const); isC && k.Value != nil && k.Value.ExactString() == `"."` {
						ok = true
					}
				}
				if !ok {
					whole, where = false, cl.Pos()
				}
			}
		}
		if nPrefix > 0 {
			if where == token.NoPos {
				where = fn.Pos()
			}
			c.Check(whole, rule, name+"|path overlap is decided on whole path segments", where, fmt.Sprintf("%d prefix tests, each against a path followed by the separator", nPrefix),
				"a path is taken to overlap a writable path when one is a plain string prefix of the other: a read-only field whose name merely starts with a writable field's name (level_change_time next to level) passes validation and is then overwritten or cleared by the write")
		} else {
			c.Note("R05.2: the read-only test uses no prefix comparison; the segment-boundary clause does not apply")
		}
	}
	// a write without update mask is accepted: the nil edge leads to a nil return without passing a rejection
	okNil := false
	scope := map[*ssa.Function]bool{fn: true}
	for _, r := range errorReturnsDeep(fn) {
		scope[r.Parent()] = true
	}
	var blocks []*ssa.BasicBlock
	for f := range scope {
		blocks = append(blocks, f.Blocks...)
	}
	for _, b := range blocks {
		iff, ok := b.Instrs[len(b.Instrs)-1].(*ssa.If)
		if !ok {
			continue
		}
		e := an.CondEdge{If: iff, Branch: true}
		if !fieldTest(e, "updateMask", false) {
			e.Branch = false
			if !fieldTest(e, "updateMask", false) {
				continue
			}
		}
		t, _ := an.PathQuery{Target: func(in ssa.Instruction) bool {
			r, isR := in.(*ssa.Return)
			return isR && provablyNilAt(r.Results[0], r)
		}}.FromBlock(e.Target())
		if t != nil {
			okNil = true
		}
	}
	c.Check(okNil, rule, name+"|no update mask: accepted", fn.Pos(), "", "a write without update mask cannot pass validation")
}

// lenEq evaluates the comparison atom "a==b"/"(a != b)" style produced for the length test:
// returns "true" when the two lengths are equal on this leaf.
func lenEq(l *an.Leaf, atom string) string {
	v := l.Get(atom)
	if v == "" {
		return ""
	}
	// atoms are normalised to equality form ("x==y"); "(x != y)" is kept for non-equality operators
	if strings.Contains(atom, "==") {
		return v
	}
	if strings.Contains(atom, "!=") {
		if v == "true" {
			return "false"
		}
		return "true"
	}
	return v
}

func r053(c *an.Ctx) { r053as(c, "R05.3") }

func r053as(c *an.Ctx, rule string) {
	fn := mustFunc(c, rule, resPkg, "WriteRequest", "fieldUpdater")
	if fn == nil {
		return
	}
	name := "(pkg/resource.WriteRequest).fieldUpdater"
	names := map[ssa.Value]string{fn.Params[0]: "wr", fn.Params[1]: "writable"}
	leaves := an.DecisionTree(fn, an.DTConfig{Names: names})
	c.Count("table_rows", len(leaves))
	for _, row := range []struct {
		label          string
		allW, nilW     string
		wantRestricted bool
	}{{"all-fields-writable override", "true", "", false}, {"resource mask nil", "false", "true", false}, {"resource mask set", "false", "false", true}} {
		cons := name + "|row " + row.label
		n := 0
		good := true
		why := ""
		for _, l := range leaves {
			if l.Undec != "" {
				c.Unk(rule, cons, fn.Pos(), l.Undec)
				good = false
				continue
			}
			if v := l.Get("wr.nilWritableFields"); v != "" && v != row.allW {
				continue
			}
			if row.nilW != "" {
				if v := l.Get("writable==nil"); v != "" && v != row.nilW {
					continue
				}
			}
			n++
			var hasW, hasU, hasR bool
			for _, r := range l.Recs {
				switch {
				case strings.HasSuffix(r.Callee, "pkg/masks.WithWritableFields"):
					hasW = true
					// argument is Union(writable, wr.moreWritableFields)
					okUnion := false
					for _, r2 := range l.Recs {
						if strings.HasSuffix(r2.Callee, "fieldmaskpb.Union") && len(r2.Args) >= 2 {
							joined := ""
							for _, a := range r2.Args {
								joined += a.S + "|"
							}
							if strings.Contains(joined, "writable") && strings.Contains(joined, "wr.moreWritableFields") && r.Args[0].S == r2.Result.S {
								okUnion = true
							}
						}
					}
					if !okUnion {
						good = false
						why = "the writable restriction is not Union(resource writable fields, per-call extra writable fields)"
					}
				case strings.HasSuffix(r.Callee, "pkg/masks.WithUpdateMask"):
					hasU = len(r.Args) == 1 && r.Args[0].S == "wr.UpdateMask"
				case strings.HasSuffix(r.Callee, "pkg/masks.WithResetMask"):
					hasR = len(r.Args) == 1 && r.Args[0].S == "wr.resetMask"
				}
			}
			if hasW != row.wantRestricted {
				good = false
				why = fmt.Sprintf("writable restriction applied: %v, expected %v", hasW, row.wantRestricted)
			}
			if !hasU || !hasR {
				good = false
				why = "the request's update mask / reset mask are not handed to the updater"
			}
		}
		if n == 0 {
			c.Unk(rule, cons, fn.Pos(), "no path for this row")
			continue
		}
		c.Check(good, rule, cons, fn.Pos(), fmt.Sprintf("%d path(s)", n), why)
	}
}

func r054(c *an.Ctx) { r054as(c, "R05.4") }

func r054as(c *an.Ctx, rule string) {
	fn := mustFunc(c, rule, "pkg/masks", "FieldUpdater", "Merge")
	if fn == nil {
		return
	}
	name := "(*pkg/masks.FieldUpdater).Merge"
	names := map[ssa.Value]string{fn.Params[0]: "f", fn.Params[1]: "dst", fn.Params[2]: "src"}
	leaves := an.DecisionTree(fn, an.DTConfig{Names: names})
	c.Count("table_rows", len(leaves))
	type agg struct {
		ok  bool
		n   int
		why string
	}
	rows := map[string]*agg{}
	rec := func(row string, good bool, why string) {
		a := rows[row]
		if a == nil {
			a = &agg{ok: true}
			rows[row] = a
		}
		a.n++
		if !good && a.ok {
			a.ok = false
			a.why = why
		}
	}
	rows9 := map[string]*agg{}
	rec9 := func(row string, good bool, why string) {
		a := rows9[row]
		if a == nil {
			a = &agg{ok: true}
			rows9[row] = a
		}
		a.n++
		if !good && a.ok {
			a.ok = false
			a.why = why
		}
	}
	writesDst := func(r an.CallRec) bool {
		for _, a := range r.Args {
			if a.S == "dst" || strings.HasPrefix(a.S, "call dst.ProtoReflect") {
				switch {
				case strings.HasSuffix(r.Callee, "proto.Merge") && r.Args[0].S == "dst",
					strings.HasSuffix(r.Callee, "proto.Reset"),
					strings.HasSuffix(r.Callee, "NestedMask).Prune"), strings.HasSuffix(r.Callee, "NestedMask).Filter") && len(r.Args) > 1 && r.Args[1].S == "dst",
					strings.HasSuffix(r.Callee, "fmutils.Prune"), strings.HasSuffix(r.Callee, "fmutils.Filter"),
					strings.HasSuffix(r.Callee, "pkg/masks.pruneEmpty") && r.Args[0].S == "dst":
					return true
				}
			}
		}
		return false
	}
	for _, l := range leaves {
		if l.Undec != "" || l.Panics {
			c.Unk(rule, name+"|table", fn.Pos(), "decision tree not extracted: "+l.Undec)
			return
		}
		wNil := l.Get("f.writableFields==nil")
		var wEmpty, uEmpty, wMaskNil string
		for a, v := range l.AssignM {
			if strings.Contains(a, "len(f.writableFields.Paths)") {
				wEmpty = v
			}
			if strings.Contains(a, "len(") && strings.Contains(a, "f.updateMask") {
				uEmpty = v
			}
			if strings.Contains(a, "NestedMaskFromPaths(") && strings.Contains(a, "f.writableFields.Paths") && strings.HasSuffix(a, "==nil") {
				wMaskNil = v
			}
		}
		uNil := l.Get("f.updateMask==nil")
		rNil := l.Get("f.resetMask==nil")
		// indices of interesting calls
		idx := map[string]int{}
		var resetDst, pruneWritableDst, resetMaskPrune, filterWritableSrc, filterMaskSrc, merge, pruneE = -1, -1, -1, -1, -1, -1, -1
		anyDstWrite := false
		pruneMask := ""
		// the written message as Merge works on it: src itself, or the copy it makes before filtering
		isSrc := func(t string) bool {
			return t == "src" || (strings.HasPrefix(t, "call ") && strings.HasSuffix(t, "proto.Clone(src)"))
		}
		for i, r := range l.Recs {
			if writesDst(r) {
				anyDstWrite = true
			}
			switch {
			case strings.HasSuffix(r.Callee, "proto.Reset") && r.Args[0].S == "dst":
				resetDst = i
			case strings.HasSuffix(r.Callee, "NestedMask).Prune") && len(r.Args) == 2 && r.Args[1].S == "dst":
				pruneWritableDst = i
				if !strings.Contains(r.Args[0].S, "f.writableFields.Paths") {
					rec("clearing uses the writable mask", false, "dst is pruned with a mask that is not the writable mask: "+r.Args[0].S)
				}
			case strings.HasSuffix(r.Callee, "fmutils.Prune") && r.Args[0].S == "dst":
				resetMaskPrune = i
				if !strings.Contains(r.Args[1].S, "f.resetMask") {
					rec("reset uses the reset mask", false, "dst is pruned after the merge with "+r.Args[1].S)
				}
			case strings.HasSuffix(r.Callee, "NestedMask).Filter") && len(r.Args) == 2 && isSrc(r.Args[1].S):
				if strings.Contains(r.Args[0].S, "f.updateMask") {
					filterMaskSrc = i
				} else {
					filterWritableSrc = i
				}
			case strings.HasSuffix(r.Callee, "proto.Merge"):
				merge = i
				rec("merge copies src into dst", len(r.Args) == 2 && r.Args[0].S == "dst" && isSrc(r.Args[1].S), "proto.Merge is called with ("+r.Args[0].S+", "+r.Args[1].S+")")
			case strings.HasSuffix(r.Callee, "pkg/masks.pruneEmpty"):
				pruneE = i
				if len(r.Args) == 3 {
					pruneMask = r.Args[2].S
				}
			}
		}
		_ = idx
		switch {
		case wNil == "false" && wEmpty == "true":
			rec("nothing writable: dst untouched", !anyDstWrite, "with an empty writable mask dst is still written")
			continue
		case uNil == "false" && uEmpty == "true":
			rec("empty non-nil update mask: dst untouched", !anyDstWrite, "with an empty (non-nil) update mask dst is still written")
			continue
		}
		hasW := wNil == "false" && wMaskNil != "true"
		rec("src restricted to the writable fields before the merge", merge >= 0 && filterWritableSrc >= 0 && filterWritableSrc < merge, "src is not filtered by the writable mask before proto.Merge: read-only fields of the written message reach the store")
		rec("src restricted to the update mask before the merge", merge >= 0 && filterMaskSrc >= 0 && filterMaskSrc < merge, "src is not filtered by the update mask before proto.Merge: fields outside the mask are written")
		if uNil == "false" {
			rec("with an update mask dst is not cleared", resetDst < 0 && pruneWritableDst < 0, "dst is reset/pruned although an update mask is present: fields outside the mask lose their values")
		} else {
			if hasW {
				rec("no update mask, writable restriction: only the writable fields are cleared", pruneWritableDst >= 0 && resetDst < 0 && pruneWritableDst < merge, "without update mask dst must be pruned with the writable mask (not reset) before the merge")
			} else {
				rec("no update mask, nothing restricted: dst reset before the merge", resetDst >= 0 && resetDst < merge, "without update mask and writable restriction dst must be reset before the merge")
			}
		}
		if rNil == "false" {
			rec("reset mask applied after the merge", resetMaskPrune > merge && merge >= 0, "the reset mask is not applied (or applied before the merge, which would write the fields again)")
		} else if rNil == "true" {
			rec("no reset mask: nothing pruned afterwards", resetMaskPrune < 0, "dst is pruned although no reset mask is configured")
		}
		// what is cleared because the written message lacks it is bounded by BOTH masks: with a writable restriction the
		// mask handed to pruneEmpty derives from the update mask and from the writable mask (their intersection). With the
		// update mask alone, a mask naming a parent whose writable part is one child clears the read-only siblings as well
		// when the written message lacks the parent, and keeps the writable child when only that is missing
		if uNil == "false" && pruneE >= 0 {
			if hasW {
				rec9("fields cleared for being absent are bounded by the update mask and the writable mask", strings.Contains(pruneMask, "f.updateMask") && strings.Contains(pruneMask, "f.writableFields"),
					"pruneEmpty is given "+pruneMask+": with a writable restriction the fields cleared because the written message lacks them must be those named by the update mask AND writable; with update mask [a] and writable [a.b], a write without a clears the read-only rest of a, and a write of a without b leaves b as it was")
			} else {
				rec9("fields cleared for being absent are bounded by the update mask and the writable mask", strings.Contains(pruneMask, "f.updateMask"), "pruneEmpty is given "+pruneMask+", which does not derive from the update mask")
			}
		}
		rec("unset masked fields are cleared after the merge", pruneE > merge && merge >= 0, "pruneEmpty(dst, src, mask) does not follow the merge: a masked field absent from the written message keeps its old value")
	}
	for _, row := range an.SortedKeys(rows) {
		a := rows[row]
		c.Check(a.ok, rule, name+"|"+row, fn.Pos(), fmt.Sprintf("%d path(s)", a.n), a.why)
	}
	if rule == "R05.4" {
		for _, row := range an.SortedKeys(rows9) {
			a := rows9[row]
			c.Check(a.ok, "R05.9", name+"|"+row, fn.Pos(), fmt.Sprintf("%d path(s)", a.n), a.why)
		}
	}
}

// r055: pruneEmpty visits every field.
func r055(c *an.Ctx, rule string) {
	fn := mustFunc(c, rule, "pkg/masks", "", "pruneEmpty")
	if fn == nil {
		return
	}
	name := "pkg/masks.pruneEmpty"
	if len(fn.AnonFuncs) != 1 {
		c.Unk(rule, name+"|range callback", fn.Pos(), "expected one Range callback")
		return
	}
	cb := fn.AnonFuncs[0]
	c.SawFunc(an.FuncName(cb))
	all := true
	for _, r := range an.Returns(cb) {
		b, ok := an.ConstBool(r.Results[0])
		if !ok || !b {
			all = false
		}
	}
	c.Check(all, rule, name+"|the field iteration never stops early", cb.Pos(), "every return of the Range callback is true",
		"the Range callback can return false: protoreflect stops iterating, so after the first cleared field the remaining masked fields that are unset in the written message keep their old values")
	// what is named by the mask and missing in the written message is REMOVED from dst: the only mask operation applied
	// to (a part of) dst here is Prune. Filter does the opposite - it keeps the named part at its old value and wipes the
	// unnamed siblings
	var filt ssa.Instruction
	for _, f := range an.WithClosures(fn) {
		an.Instrs(f, func(in ssa.Instruction) {
			if an.IsCallTo(in, "(github.com/mennanov/fmutils.NestedMask).Filter", "github.com/mennanov/fmutils.Filter") {
				filt = in
			}
		})
	}
	fpos := fn.Pos()
	if filt != nil {
		fpos = filt.Pos()
	}
	c.Check(filt == nil, rule, name+"|absent parts are pruned, never filtered", fpos, "no Filter call on dst",
		"pruneEmpty applies NestedMask.Filter to a sub-message of dst: the part the mask names keeps its old value although the written message lacks it, and everything the mask does not name is wiped")
	// clear exactly when the mask names the field and src does not have it
	okClear := false
	an.Instrs(cb, func(in ssa.Instruction) {
		call, ok := in.(*ssa.Call)
		if !ok || !call.Call.IsInvoke() || call.Call.Method.Name() != "Clear" {
			return
		}
		maskOK, hasOK := false, false
		for _, e := range an.GuardingEdges(call) {
			for _, v := range an.ValuesAt(e.If.Cond) {
				if ex, isEx := v.(*ssa.Extract); isEx && ex.Index == 1 && e.Branch {
					if _, isLk := ex.Tuple.(*ssa.Lookup); isLk {
						maskOK = true
					}
				}
				if cl, isCall := v.(*ssa.Call); isCall && cl.Call.IsInvoke() && cl.Call.Method.Name() == "Has" && !e.Branch {
					hasOK = true
				}
			}
		}
		if maskOK && hasOK {
			okClear = true
		}
	})
	// a field is cleared as a whole only when the mask names the whole field (no nested paths below it)
	wholeOnly := false
	an.Instrs(cb, func(in ssa.Instruction) {
		call, ok := in.(*ssa.Call)
		if !ok || !call.Call.IsInvoke() || call.Call.Method.Name() != "Clear" {
			return
		}
		for _, e := range an.GuardingEdges(call) {
			bo, isBO := e.If.Cond.(*ssa.BinOp)
			if !isBO {
				continue
			}
			for _, pair := range [][2]ssa.Value{{bo.X, bo.Y}, {bo.Y, bo.X}} {
				lc, isLen := pair[0].(*ssa.Call)
				k, isC := an.ConstInt(pair[1])
				if isLen && an.CalleeName(lc) == "builtin len" && isC && k == 0 && strings.Contains(lc.Call.Args[0].Type().String(), "NestedMask") {
					if (bo.Op == token.EQL && e.Branch) || (bo.Op == token.NEQ && !e.Branch) || (bo.Op == token.GTR && !e.Branch) {
						wholeOnly = true
					}
				}
			}
		}
	})
	c.Check(wholeOnly, rule, name+"|a whole field is cleared only when the mask names the whole field", cb.Pos(), "Clear guarded by an empty nested mask",
		"dst.Clear(field) is not guarded by `the mask has no paths below this field`: a mask naming only part of a message field (a.b) clears all of a when the written message lacks it, including parts outside the mask")
	c.Check(okClear, rule, name+"|clears exactly the masked fields that src lacks", cb.Pos(), "Clear guarded by mask[field] present and !src.Has(field)",
		"dst fields are cleared without checking that the mask names them and that the written message lacks them")
}

// r057: "no update mask" means "every writable field" and stays that way through the option plumbing: the request's
// UpdateMask only ever receives a union with more paths on a path where it is known to be set. A union computed from
// a nil mask is a mask of just the extra paths: the write then touches only those and every other writable field keeps
// its old value.
func r057(c *an.Ctx) {
	const rule = "R05.7"
	n := 0
	for _, fn := range c.Prog.FuncsIn(resPkg) {
		if c.Prog.IsGenerated(fn.Pos()) {
			continue
		}
		an.Instrs(fn, func(in ssa.Instruction) {
			st, ok := in.(*ssa.Store)
			if !ok {
				return
			}
			base, sn, fld, isF := an.FieldOf(st.Addr)
			if !isF || fld != "UpdateMask" || !strings.HasSuffix(sn, "/pkg/resource.WriteRequest") {
				return
			}
			var union *ssa.Call
			for _, s0 := range an.Sources(st.Val) {
				if cl, isCall := s0.(*ssa.Call); isCall && strings.HasSuffix(an.CalleeName(cl), "fieldmaskpb.Union") {
					union = cl
				}
			}
			if union == nil {
				return
			}
			n++
			// the current mask is an operand of the union and is known non-nil here
			guarded := false
			for _, e := range an.GuardingEdges(st) {
				x, trueMeansNil, isNil := an.NilTest(e.If.Cond)
				if !isNil || e.Branch == trueMeansNil {
					continue
				}
				if b2, sn2, f2, isF2 := an.FieldOf(x); isF2 && f2 == "UpdateMask" && sn2 == sn && (b2 == base || an.SameValues(b2, base)) {
					guarded = true
				}
			}
			top := fn
			for top.Parent() != nil {
				top = top.Parent()
			}
			c.SawFunc(an.FuncName(top))
			c.Check(guarded, rule, an.FuncName(top)+"|a nil update mask is never widened into a narrow one", st.Pos(), "the union is taken only where a mask is set",
				"the request's UpdateMask is replaced by a union of paths on a path where it may be nil: fieldmaskpb.Union(nil, more) is a mask holding only the extra paths, so a write without update mask (which means every writable field) combined with WithMoreUpdatePaths touches only those paths and leaves the other writable fields at their old values")
		})
	}
}

// r059intersect: inside the function that intersects two nested masks, a name without anything below it selects the
// whole field, so on the branch where one side's sub-mask is empty the entry of the result is the OTHER side's sub-mask.
// Storing the empty one selects the whole field although the other mask names only a part of it.
func r059intersect(c *an.Ctx, rule string) {
	merge := c.Prog.Func("pkg/masks", "FieldUpdater", "Merge")
	if merge == nil {
		return
	}
	// the intersecting helper: a function of pkg/masks with two NestedMask parameters whose result reaches pruneEmpty
	var fn *ssa.Function
	for _, call := range an.CallsTo(merge, an.ModulePath+"/pkg/masks.pruneEmpty") {
		for _, v := range localValues(call.Common().Args[2], 0) {
			if cl, ok := v.(*ssa.Call); ok {
				if h := cl.Call.StaticCallee(); h != nil && an.InModule(h) && len(h.Params) == 2 &&
					strings.HasSuffix(h.Params[0].Type().String(), "fmutils.NestedMask") && strings.HasSuffix(h.Params[1].Type().String(), "fmutils.NestedMask") {
					fn = h
				}
			}
		}
	}
	if fn == nil {
		return // R05.9 reports a pruneEmpty mask that does not derive from both masks
	}
	name := an.FuncName(fn)
	n, ok := 0, true
	var where ssa.Instruction
	an.Instrs(fn, func(in ssa.Instruction) {
		mu, isMU := in.(*ssa.MapUpdate)
		if !isMU {
			return
		}
		for _, e := range an.GuardingEdges(mu) {
			bo, isBO := e.If.Cond.(*ssa.BinOp)
			if !isBO || bo.Op != token.EQL || !e.Branch {
				continue
			}
			k, isC := an.ConstInt(bo.Y)
			lenCall, isCall := bo.X.(*ssa.Call)
			if !isC || k != 0 || !isCall || an.CalleeName(lenCall) != "builtin len" {
				continue
			}
			n++
			if an.SameValues(mu.Value, lenCall.Call.Args[0]) {
				ok, where = false, mu
			}
		}
	})
	if n == 0 {
		c.Ok(rule, name+"|an empty sub-mask yields to the other side's", fn.Pos(), "no branch on an empty sub-mask")
		return
	}
	pos := fn.Pos()
	if where != nil {
		pos = where.Pos()
	}
	c.Check(ok, rule, name+"|an empty sub-mask yields to the other side's", pos, fmt.Sprintf("%d branch(es)", n),
		"on the branch where one mask names the whole field (its sub-mask is empty) the result stores that empty sub-mask instead of the other side's: the intersection then selects the whole field, so with update mask [a] and writable [a.b] a write without a clears the read-only rest of a again")
}

// r0510: what a creating write merges into. When there is no stored message yet, the masked merge starts from an
// EMPTY message of the written type (msg.ProtoReflect().New().Interface()): starting from the written message itself
// (or a copy of it) stores every field it carries, whatever the update mask and the writable fields say, and merging the
// message into itself doubles its repeated fields. Checked where the two write paths make that message: the `created`
// variable of Collection.Update's read callback and the nil-destination branch of the change function.
func r0510(c *an.Ctx, rule string) {
	isEmptyNew := func(v ssa.Value) bool {
		vals := an.ValuesAt(v)
		if len(vals) == 0 {
			return false
		}
		for _, x := range vals {
			if an.IsNilConst(x) {
				continue
			}
			call, ok := x.(*ssa.Call)
			if !ok || !call.Call.IsInvoke() || call.Call.Method.Name() != "Interface" {
				return false
			}
			inner, ok := call.Call.Value.(*ssa.Call)
			if !ok || !inner.Call.IsInvoke() || inner.Call.Method.Name() != "New" {
				return false
			}
		}
		return true
	}
	isMsg := func(t types.Type) bool {
		s := t.String()
		return strings.HasSuffix(s, "proto.Message") || strings.HasSuffix(s, "protoreflect.ProtoMessage")
	}
	// Collection.Update: stores to the variable the read callback returns for a new item
	if fn := mustFunc(c, rule, resPkg, "Collection", "Update"); fn != nil {
		n, ok := 0, true
		var where ssa.Instruction
		for _, f := range an.WithClosures(fn) {
			if f == fn {
				continue
			}
			an.Instrs(f, func(in ssa.Instruction) {
				st, isSt := in.(*ssa.Store)
				if !isSt || !isMsg(st.Val.Type()) {
					return
				}
				if _, isFV := st.Addr.(*ssa.FreeVar); !isFV {
					return
				}
				if an.IsNilConst(st.Val) {
					return
				}
				// only the variable that is handed to GetAndUpdate as the current value of a new item
				returned := false
				for _, r := range an.Returns(f) {
					if len(r.Results) == 2 {
						if ld, isLd := r.Results[0].(*ssa.UnOp); isLd && ld.X == st.Addr {
							returned = true
						}
					}
				}
				if !returned {
					return
				}
				n++
				if !isEmptyNew(st.Val) {
					ok, where = false, in
				}
			})
		}
		pos := fn.Pos()
		if where != nil {
			pos = where.Pos()
		}
		c.Check(ok && n > 0, rule, "(*pkg/resource.Collection).Update|a new item is merged into an empty message", pos, fmt.Sprintf("%d store(s)", n),
			"the message a creating write starts from is not msg.ProtoReflect().New().Interface(): starting from the written message stores all of its fields regardless of update mask and writable fields (and merges its repeated fields into themselves)")
	}
	// changeFn: the nil-destination branch
	if fn := mustFunc(c, rule, resPkg, "WriteRequest", "changeFn"); fn != nil {
		for _, cl := range changeFnBodies(fn) {
			dst := cl.Params[len(cl.Params)-1]
			n, ok := 0, true
			for _, call := range an.CallsTo(cl, updaterMerge) {
				// Merge(writer, dst', value): dst' is the parameter or, where that was nil, an empty message
				for _, v := range an.ValuesAt(call.Common().Args[1]) {
					if v == ssa.Value(dst) {
						continue
					}
					n++
					if !isEmptyNew(v) {
						ok = false
					}
				}
			}
			c.Check(ok && n > 0, rule, "(pkg/resource.WriteRequest).changeFn$1|without a stored message the merge starts from an empty one", cl.Pos(), fmt.Sprintf("%d alternative destination(s)", n),
				"when there is no message to merge into, the change function does not start from value.ProtoReflect().New().Interface(): the first write to an empty Value then stores the written message as it is, ignoring update mask and writable fields (and the caller keeps a reference to what is stored)")
		}
	}
}

// changeFnBodies: the function(s) that WriteRequest.changeFn hands out as the change function: its literal, or the
// method behind a method value of an object built there (`return c.apply`). The last two parameters are (old, dst).
func changeFnBodies(fn *ssa.Function) []*ssa.Function {
	var out []*ssa.Function
	for _, a := range fn.AnonFuncs {
		if len(a.Params) == 2 {
			out = append(out, a)
		}
	}
	if len(out) > 0 {
		return out
	}
	for _, r := range an.Returns(fn) {
		if len(r.Results) != 1 {
			continue
		}
		for _, src := range an.SourcesOpaque(r.Results[0]) {
			if mc, isMC := src.(*ssa.MakeClosure); isMC {
				if body, _, _ := an.CallbackBody(mc); body != nil && len(body.Params) >= 2 {
					out = append(out, body)
				}
			}
		}
	}
	return out
}

// r0511: options called WithMore… add to what the request already holds: what their closure stores into a field of the
// request depends both on that field's current value and on the option's argument (Union(current, more)). Storing the
// argument alone makes the last of several such options win, so fields named by the earlier ones are silently not
// writable / not updated any more.
func r0511(c *an.Ctx, rule string) {
	n := 0
	for _, fn := range c.Prog.FuncsIn(resPkg) {
		if fn.Parent() != nil || !strings.HasPrefix(fn.Name(), "WithMore") || len(fn.Params) != 1 {
			continue
		}
		prm := fn.Params[0]
		for _, cl := range fn.AnonFuncs {
			an.Instrs(cl, func(in ssa.Instruction) {
				st, ok := in.(*ssa.Store)
				if !ok {
					return
				}
				_, _, fld, isF := an.FieldOf(st.Addr)
				if !isF {
					return
				}
				n++
				c.SawFunc(an.FuncName(fn))
				fromField, fromParam := false, false
				srcs := an.Sources(st.Val)
				for _, s0 := range append([]ssa.Value(nil), srcs...) {
					// the operands of a combining call (fieldmaskpb.Union(current, more))
					if call, isCall := s0.(*ssa.Call); isCall {
						for _, a := range call.Call.Args {
							srcs = append(srcs, an.Sources(a)...)
						}
					}
				}
				for _, s0 := range srcs {
					if s0 == ssa.Value(prm) {
						fromParam = true
					}
					if _, _, f2, ok2 := an.FieldOf(s0); ok2 && f2 == fld {
						fromField = true
					}
					if u, isU := s0.(*ssa.UnOp); isU {
						if _, _, f2, ok2 := an.FieldOf(u.X); ok2 && f2 == fld {
							fromField = true
						}
					}
				}
				c.Check(fromField && fromParam, rule, an.FuncName(fn)+"|adds to what the request holds", st.Pos(), "stored value = f(current "+fld+", argument)",
					"the option stores a value that does not depend on both the request's current "+fld+" and its argument: it replaces instead of adding, so only the last WithMore… option of a write counts")
			})
		}
	}
	c.Count("accumulating_option_stores", n)
}

// r0513: the mask walkers of the write side never ask a map (or list) field for "its message". A field of message
// KIND can be a singular message, a list of messages or a map with message values; protoreflect panics when
// Value.Message() is called on the latter two ("cannot convert map to message"). Every descent
// dstPr.Get(d).Message() in pkg/masks/update.go lies behind a test that rules both out: Cardinality() != Repeated,
// or IsList together with IsMap. (`!d.IsList()` alone lets maps through: a masked write naming a populated map
// field panics.)
func r0513(c *an.Ctx, rule string) {
	n := 0
	for _, fn := range c.Prog.FuncsIn("pkg/masks") {
		if c.Prog.IsGenerated(fn.Pos()) || !strings.HasSuffix(c.Prog.RelFile(fn.Pos()), "update.go") {
			continue
		}
		ord := 0
		an.Instrs(fn, func(in ssa.Instruction) {
			call, ok := in.(*ssa.Call)
			if !ok || !strings.HasSuffix(an.CalleeName(call), "protoreflect.Value).Message") {
				return
			}
			ord++
			n++
			card, isList, isMap := false, false, false
			for _, e := range an.GuardingEdges(call) {
				for _, s := range an.Sources(e.If.Cond) {
					walk := []ssa.Value{s}
					if bo, isBo := s.(*ssa.BinOp); isBo {
						walk = append(walk, an.Sources(bo.X)...)
						walk = append(walk, an.Sources(bo.Y)...)
					}
					if u, isU := s.(*ssa.UnOp); isU {
						walk = append(walk, an.Sources(u.X)...)
					}
					for _, v := range walk {
						if cl, isCall := v.(*ssa.Call); isCall && cl.Call.IsInvoke() {
							switch cl.Call.Method.Name() {
							case "Cardinality":
								card = true
							case "IsList":
								isList = true
							case "IsMap":
								isMap = true
							}
						}
					}
				}
			}
			c.SawFunc(an.FuncName(fn))
			c.Check(card || (isList && isMap), rule, fmt.Sprintf("%s|descent #%d into a field's message rules out lists and maps", an.FuncName(fn), ord), call.Pos(), "guarded by Cardinality() != Repeated (or IsList and IsMap)",
				"Value.Message() is reached for a field that may be a map (or list) of messages: a masked write that names such a field, populated on both sides, panics (cannot convert map to message)")
		})
	}
	c.Count("message_descents_on_the_write_side", n)
}
