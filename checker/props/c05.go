package props

import (
	"fmt"
	"strings"

	"golang.org/x/tools/go/ssa"

	"scverif/an"
)

func init() {
	register(&Prop{
		ID:    "C05",
		Title: "Writes respect update, writable-field and reset masks",
		Explanation: "R05.1 Value.set and Collection.Update build one FieldUpdater from the request, validate the written message with it before GetAndUpdate and hand the same updater to the change function. R05.2 Validate's decision table: an update mask with unknown paths or with paths outside the writable fields is rejected with InvalidArgument, anything else passes. R05.3 WriteRequest.fieldUpdater's table: all-writable override or nil resource mask mean no writable restriction, otherwise the union of resource and per-call writable fields; update and reset masks are always passed on. R05.4 the frame of FieldUpdater.Merge on every path of its decision tree: nothing-writable and empty-mask paths never write dst; src is filtered by the writable mask and by the update mask before proto.Merge(dst, src); dst is cleared (entirely only when nothing restricts writing, otherwise only the writable fields) only when there is no update mask and before the merge; the reset mask prunes dst after the merge. R05.5 pruneEmpty visits every field (its Range callback never stops the iteration) and recurses only into singular messages. Does NOT decide the field-by-field semantics of fmutils / proto.Merge on nested paths, oneofs, maps and repeated fields (third-party code, runtime message shapes).",
		Assumptions: []string{"fmutils.NestedMask.Filter keeps exactly the masked fields, Prune clears exactly the masked fields, proto.Merge copies set fields of src into dst, protoreflect Range stops when the callback returns false"},
		Run:         runC05,
		Controls: []Control{
			{Name: "remove-validate", File: "pkg/resource/value.go", Old: "\tif err := writer.Validate(value); err != nil {\n\t\treturn nil, err\n\t}\n", New: "", Expect: "R05.1"},
			{Name: "other-updater", File: "pkg/resource/collection.go", Old: "\t\twriteRequest.changeFn(writer, msg),", New: "\t\twriteRequest.changeFn(writeRequest.fieldUpdater(nil), msg),", Expect: "R05.1"},
			{Name: "readonly-as-internal", File: "pkg/masks/update.go", Old: "return status.Errorf(codes.InvalidArgument, \"%v mentions read-only fields\", f.updateMaskFieldName)", New: "return status.Errorf(codes.Internal, \"%v mentions read-only fields\", f.updateMaskFieldName)", Expect: "R05.2"},
			{Name: "readonly-not-checked", File: "pkg/masks/update.go", Old: "if len(common.Paths) != len(f.updateMask.Paths) {", New: "if len(common.Paths) > len(f.updateMask.Paths) {", Expect: "R05.2"},
			{Name: "ignore-more-writable", File: "pkg/resource/opt.go", Old: "fields := fieldmaskpb.Union(writableFields, wr.moreWritableFields)", New: "fields := fieldmaskpb.Union(writableFields, writableFields)", Expect: "R05.3"},
			{Name: "merge-before-filter", File: "pkg/masks/update.go", Old: "\tnestedMask.Filter(src)\n\tproto.Merge(dst, src)\n", New: "\tproto.Merge(dst, src)\n\tnestedMask.Filter(src)\n", Expect: "R05.4"},
			{Name: "reset-before-merge", File: "pkg/masks/update.go", Old: "\tproto.Merge(dst, src)\n\n\t// if a field mentioned by the mask is nil, we should clear it\n\tpruneEmpty(dst, src, nestedMask)\n\n\tif f.resetMask != nil {\n\t\tfmutils.Prune(dst, f.resetMask.Paths)\n\t}\n",
				New: "\tif f.resetMask != nil {\n\t\tfmutils.Prune(dst, f.resetMask.Paths)\n\t}\n\tproto.Merge(dst, src)\n\n\tpruneEmpty(dst, src, nestedMask)\n", Expect: "R05.4"},
			{Name: "reset-with-mask", File: "pkg/masks/update.go", Old: "\tmask := f.updateMask\n\tif mask == nil {\n", New: "\tmask := f.updateMask\n\tif mask == nil || len(mask.GetPaths()) > 1 {\n", Expect: "R05.4"},
			{Name: "prune-stops-early", File: "pkg/masks/update.go", Old: "\t\tif !srcPr.Has(d) {\n\t\t\tdstPr.Clear(d)\n\t\t\treturn true\n\t\t}", New: "\t\tif !srcPr.Has(d) {\n\t\t\tdstPr.Clear(d)\n\t\t\treturn false\n\t\t}", Expect: "R05.5"},
			{Name: "validate-twice", Silent: true, File: "pkg/resource/value.go", Old: "\tif err := writer.Validate(value); err != nil {\n\t\treturn nil, err\n\t}\n", New: "\tif err := writer.Validate(value); err != nil {\n\t\treturn nil, err\n\t}\n\tif err := writer.Validate(value); err != nil {\n\t\treturn nil, err\n\t}\n"},
		},
	})
}

func runC05(c *an.Ctx) {
	r051(c)
	r052(c)
	r053(c)
	r054(c)
	r055(c, "R05.5")
	c.Min("R05.1", 4)
	c.Min("R05.2", 4)
	c.Min("R05.3", 3)
	c.Min("R05.4", 10)
	c.Min("R05.5", 2)
}

const updaterMerge = "(*" + an.ModulePath + "/pkg/masks.FieldUpdater).Merge"
const updaterValidate = "(*" + an.ModulePath + "/pkg/masks.FieldUpdater).Validate"

func r051(c *an.Ctx) {
	const rule = "R05.1"
	fuq := "(" + an.ModulePath + "/pkg/resource.WriteRequest).fieldUpdater"
	cfq := "(" + an.ModulePath + "/pkg/resource.WriteRequest).changeFn"
	for _, t := range [][2]string{{"Value", "set"}, {"Collection", "Update"}} {
		fn := mustFunc(c, rule, resPkg, t[0], t[1])
		if fn == nil {
			continue
		}
		name := "(*pkg/resource." + t[0] + ")." + t[1]
		ups := an.CallsTo(fn, fuq)
		vals := an.CallsTo(fn, updaterValidate)
		cfs := an.CallsTo(fn, cfq)
		gaus := an.CallsTo(fn, gauName)
		if len(ups) == 0 || len(vals) == 0 || len(cfs) == 0 || len(gaus) == 0 {
			c.Bad(rule, name+"|one updater validates and merges", fn.Pos(), fmt.Sprintf("fieldUpdater/Validate/changeFn/GetAndUpdate call sites: %d/%d/%d/%d", len(ups), len(vals), len(cfs), len(gaus)))
			continue
		}
		fromUpdater := func(v ssa.Value) ssa.Value {
			for _, s := range an.ValuesAt(v) {
				for _, u := range ups {
					if s == u.(*ssa.Call) {
						return s
					}
				}
			}
			return nil
		}
		same := true
		var theUpdater ssa.Value
		for _, v := range vals {
			u := fromUpdater(v.Common().Args[0])
			if u == nil {
				same = false
			}
			theUpdater = u
		}
		for _, cf := range cfs {
			// changeFn(writer, value): receiver is arg 0 for value receivers
			args := cf.Common().Args
			u := fromUpdater(args[len(args)-2])
			if u == nil || u != theUpdater {
				same = false
			}
		}
		c.Check(same, rule, name+"|one updater validates and merges", fn.Pos(), "Validate and changeFn use the FieldUpdater built by request.fieldUpdater(resource writable fields)",
			"the FieldUpdater that validates the update mask is not the one the change function merges with: a mask can pass validation and still write read-only fields (or the reverse)")
		// the written message is what is validated and merged
		okMsg := true
		for _, v := range vals {
			for _, cf := range cfs {
				a := cf.Common().Args
				if !sameSingleSource(v.Common().Args[1], a[len(a)-1]) {
					okMsg = false
				}
			}
		}
		c.Check(okMsg, rule, name+"|the validated message is the written message", fn.Pos(), "", "Validate and changeFn are given different messages")
		// fieldUpdater receives the resource's writable fields
		for _, u := range ups {
			a := u.Common().Args
			_, _, f, ok := an.FieldOf(a[len(a)-1])
			c.Check(ok && f == "writableFields", rule, name+"|updater built from the resource's writable fields", u.Pos(), "", "fieldUpdater is not given the resource's configured writable fields")
		}
	}
}

// maskRow finds the leaves consistent with the given atom values.
func leavesWhere(leaves []*an.Leaf, want map[string]string) []*an.Leaf {
	var out []*an.Leaf
	for _, l := range leaves {
		ok := true
		for a, v := range want {
			if got := l.Get(a); got != "" && got != v {
				ok = false
			}
			if l.Get(a) == "" && v != "*" {
				// the path did not depend on the atom: consistent with any value
			}
		}
		if ok {
			out = append(out, l)
		}
	}
	return out
}

func r052(c *an.Ctx) {
	const rule = "R05.2"
	fn := mustFunc(c, rule, "pkg/masks", "FieldUpdater", "Validate")
	if fn == nil {
		return
	}
	name := "(*pkg/masks.FieldUpdater).Validate"
	names := map[ssa.Value]string{fn.Params[0]: "f", fn.Params[1]: "m"}
	leaves := an.DecisionTree(fn, an.DTConfig{Names: names})
	c.Count("table_rows", len(leaves))
	isInvalidArg := func(s *an.Sym) bool {
		return strings.Contains(s.S, fmt.Sprintf("status.Errorf(%d,", an.CodeInvalidArgument)) || strings.Contains(s.S, fmt.Sprintf("status.Error(%d,", an.CodeInvalidArgument))
	}
	var validAtom, lenAtom string
	for _, l := range leaves {
		for a := range l.AssignM {
			if strings.Contains(a, "IsValid(f.updateMask") {
				validAtom = a
			}
			if strings.Contains(a, "len(") && strings.Contains(a, "f.updateMask.Paths") {
				lenAtom = a
			}
		}
	}
	if validAtom == "" || lenAtom == "" {
		c.Bad(rule, name+"|table", fn.Pos(), fmt.Sprintf("Validate does not test the update mask's validity (%q) and the size of its intersection with the writable fields (%q)", validAtom, lenAtom))
		return
	}
	okNil, okInvalid, okRO, okPass := true, true, true, true
	n := 0
	for _, l := range leaves {
		if l.Undec != "" || l.Panics {
			c.Unk(rule, name+"|table", fn.Pos(), "table not extracted: "+l.Undec)
			return
		}
		n++
		ret := l.Returns[0]
		um := l.Get("f.updateMask==nil")
		resetTrouble := l.Get("f.resetMask==nil") == "false" && ret.K != "nil"
		switch {
		case um == "true":
			if ret.K != "nil" && !resetTrouble {
				okNil = false
			}
		case l.Get(validAtom) == "false":
			if !isInvalidArg(ret) {
				okInvalid = false
			}
		case l.Get("f.writableFields==nil") == "false" && lenEq(l, lenAtom) == "false":
			if !isInvalidArg(ret) {
				okRO = false
			}
		default:
			if ret.K != "nil" && !resetTrouble {
				okPass = false
			}
		}
	}
	c.Check(okNil, rule, name+"|no update mask: accepted", fn.Pos(), "", "a write without update mask is rejected")
	c.Check(okInvalid, rule, name+"|unknown paths: InvalidArgument", fn.Pos(), "", "an update mask naming unknown fields is not rejected with InvalidArgument")
	c.Check(okRO, rule, name+"|paths outside the writable fields: InvalidArgument", fn.Pos(), "", "an update mask naming read-only fields (intersection smaller than the mask) is not rejected with InvalidArgument")
	c.Check(okPass, rule, name+"|valid writable mask: accepted", fn.Pos(), fmt.Sprintf("%d rows", n), "a valid mask inside the writable fields is rejected")
	// the intersection compared is writable ∩ update mask: fullMask() result
	uses := false
	for _, l := range leaves {
		for _, r := range l.Recs {
			if strings.HasSuffix(r.Callee, "FieldUpdater).fullMask") {
				uses = true
			}
		}
	}
	c.Check(uses && strings.Contains(lenAtom, "fullMask"), rule, name+"|read-only test compares the mask with its writable intersection", fn.Pos(), lenAtom, "the read-only test does not compare len(intersection) with len(update mask)")
}

// lenEq evaluates the comparison atom "a==b"/"(a != b)" style produced for the length test:
// returns "true" when the two lengths are equal on this leaf.
func lenEq(l *an.Leaf, atom string) string {
	v := l.Get(atom)
	if v == "" {
		return ""
	}
	// atoms are normalised to equality form ("x==y"); "(x != y)" is kept for non-equality operators
	if strings.Contains(atom, "==") {
		return v
	}
	if strings.Contains(atom, "!=") {
		if v == "true" {
			return "false"
		}
		return "true"
	}
	return v
}

func r053(c *an.Ctx) {
	const rule = "R05.3"
	fn := mustFunc(c, rule, resPkg, "WriteRequest", "fieldUpdater")
	if fn == nil {
		return
	}
	name := "(pkg/resource.WriteRequest).fieldUpdater"
	names := map[ssa.Value]string{fn.Params[0]: "wr", fn.Params[1]: "writable"}
	leaves := an.DecisionTree(fn, an.DTConfig{Names: names})
	c.Count("table_rows", len(leaves))
	for _, row := range []struct {
		label          string
		allW, nilW     string
		wantRestricted bool
	}{{"all-fields-writable override", "true", "", false}, {"resource mask nil", "false", "true", false}, {"resource mask set", "false", "false", true}} {
		cons := name + "|row " + row.label
		n := 0
		good := true
		why := ""
		for _, l := range leaves {
			if l.Undec != "" {
				c.Unk(rule, cons, fn.Pos(), l.Undec)
				good = false
				continue
			}
			if v := l.Get("wr.nilWritableFields"); v != "" && v != row.allW {
				continue
			}
			if row.nilW != "" {
				if v := l.Get("writable==nil"); v != "" && v != row.nilW {
					continue
				}
			}
			n++
			var hasW, hasU, hasR bool
			for _, r := range l.Recs {
				switch {
				case strings.HasSuffix(r.Callee, "pkg/masks.WithWritableFields"):
					hasW = true
					// argument is Union(writable, wr.moreWritableFields)
					okUnion := false
					for _, r2 := range l.Recs {
						if strings.HasSuffix(r2.Callee, "fieldmaskpb.Union") && len(r2.Args) >= 2 {
							joined := ""
							for _, a := range r2.Args {
								joined += a.S + "|"
							}
							if strings.Contains(joined, "writable") && strings.Contains(joined, "wr.moreWritableFields") && r.Args[0].S == r2.Result.S {
								okUnion = true
							}
						}
					}
					if !okUnion {
						good = false
						why = "the writable restriction is not Union(resource writable fields, per-call extra writable fields)"
					}
				case strings.HasSuffix(r.Callee, "pkg/masks.WithUpdateMask"):
					hasU = len(r.Args) == 1 && r.Args[0].S == "wr.UpdateMask"
				case strings.HasSuffix(r.Callee, "pkg/masks.WithResetMask"):
					hasR = len(r.Args) == 1 && r.Args[0].S == "wr.resetMask"
				}
			}
			if hasW != row.wantRestricted {
				good = false
				why = fmt.Sprintf("writable restriction applied: %v, expected %v", hasW, row.wantRestricted)
			}
			if !hasU || !hasR {
				good = false
				why = "the request's update mask / reset mask are not handed to the updater"
			}
		}
		if n == 0 {
			c.Unk(rule, cons, fn.Pos(), "no path for this row")
			continue
		}
		c.Check(good, rule, cons, fn.Pos(), fmt.Sprintf("%d path(s)", n), why)
	}
}

func r054(c *an.Ctx) { r054as(c, "R05.4") }

func r054as(c *an.Ctx, rule string) {
	fn := mustFunc(c, rule, "pkg/masks", "FieldUpdater", "Merge")
	if fn == nil {
		return
	}
	name := "(*pkg/masks.FieldUpdater).Merge"
	names := map[ssa.Value]string{fn.Params[0]: "f", fn.Params[1]: "dst", fn.Params[2]: "src"}
	leaves := an.DecisionTree(fn, an.DTConfig{Names: names})
	c.Count("table_rows", len(leaves))
	type agg struct {
		ok  bool
		n   int
		why string
	}
	rows := map[string]*agg{}
	rec := func(row string, good bool, why string) {
		a := rows[row]
		if a == nil {
			a = &agg{ok: true}
			rows[row] = a
		}
		a.n++
		if !good && a.ok {
			a.ok = false
			a.why = why
		}
	}
	writesDst := func(r an.CallRec) bool {
		for _, a := range r.Args {
			if a.S == "dst" || strings.HasPrefix(a.S, "call dst.ProtoReflect") {
				switch {
				case strings.HasSuffix(r.Callee, "proto.Merge") && r.Args[0].S == "dst",
					strings.HasSuffix(r.Callee, "proto.Reset"),
					strings.HasSuffix(r.Callee, "NestedMask).Prune"), strings.HasSuffix(r.Callee, "NestedMask).Filter") && len(r.Args) > 1 && r.Args[1].S == "dst",
					strings.HasSuffix(r.Callee, "fmutils.Prune"), strings.HasSuffix(r.Callee, "fmutils.Filter"),
					strings.HasSuffix(r.Callee, "pkg/masks.pruneEmpty") && r.Args[0].S == "dst":
					return true
				}
			}
		}
		return false
	}
	for _, l := range leaves {
		if l.Undec != "" || l.Panics {
			c.Unk(rule, name+"|table", fn.Pos(), "decision tree not extracted: "+l.Undec)
			return
		}
		wNil := l.Get("f.writableFields==nil")
		var wEmpty, uEmpty, wMaskNil string
		for a, v := range l.AssignM {
			if strings.Contains(a, "len(f.writableFields.Paths)") {
				wEmpty = v
			}
			if strings.Contains(a, "len(") && strings.Contains(a, "f.updateMask") {
				uEmpty = v
			}
			if strings.Contains(a, "NestedMaskFromPaths(f.writableFields.Paths)==nil") {
				wMaskNil = v
			}
		}
		uNil := l.Get("f.updateMask==nil")
		rNil := l.Get("f.resetMask==nil")
		// indices of interesting calls
		idx := map[string]int{}
		var resetDst, pruneWritableDst, resetMaskPrune, filterWritableSrc, filterMaskSrc, merge, pruneE = -1, -1, -1, -1, -1, -1, -1
		anyDstWrite := false
		for i, r := range l.Recs {
			if writesDst(r) {
				anyDstWrite = true
			}
			switch {
			case strings.HasSuffix(r.Callee, "proto.Reset") && r.Args[0].S == "dst":
				resetDst = i
			case strings.HasSuffix(r.Callee, "NestedMask).Prune") && len(r.Args) == 2 && r.Args[1].S == "dst":
				pruneWritableDst = i
				if !strings.Contains(r.Args[0].S, "f.writableFields.Paths") {
					rec("clearing uses the writable mask", false, "dst is pruned with a mask that is not the writable mask: "+r.Args[0].S)
				}
			case strings.HasSuffix(r.Callee, "fmutils.Prune") && r.Args[0].S == "dst":
				resetMaskPrune = i
				if !strings.Contains(r.Args[1].S, "f.resetMask") {
					rec("reset uses the reset mask", false, "dst is pruned after the merge with "+r.Args[1].S)
				}
			case strings.HasSuffix(r.Callee, "NestedMask).Filter") && len(r.Args) == 2 && r.Args[1].S == "src":
				if strings.Contains(r.Args[0].S, "f.updateMask") {
					filterMaskSrc = i
				} else {
					filterWritableSrc = i
				}
			case strings.HasSuffix(r.Callee, "proto.Merge"):
				merge = i
				rec("merge copies src into dst", len(r.Args) == 2 && r.Args[0].S == "dst" && r.Args[1].S == "src", "proto.Merge is called with ("+r.Args[0].S+", "+r.Args[1].S+")")
			case strings.HasSuffix(r.Callee, "pkg/masks.pruneEmpty"):
				pruneE = i
			}
		}
		_ = idx
		switch {
		case wNil == "false" && wEmpty == "true":
			rec("nothing writable: dst untouched", !anyDstWrite, "with an empty writable mask dst is still written")
			continue
		case uNil == "false" && uEmpty == "true":
			rec("empty non-nil update mask: dst untouched", !anyDstWrite, "with an empty (non-nil) update mask dst is still written")
			continue
		}
		hasW := wNil == "false" && wMaskNil != "true"
		rec("src restricted to the writable fields before the merge", merge >= 0 && filterWritableSrc >= 0 && filterWritableSrc < merge, "src is not filtered by the writable mask before proto.Merge: read-only fields of the written message reach the store")
		rec("src restricted to the update mask before the merge", merge >= 0 && filterMaskSrc >= 0 && filterMaskSrc < merge, "src is not filtered by the update mask before proto.Merge: fields outside the mask are written")
		if uNil == "false" {
			rec("with an update mask dst is not cleared", resetDst < 0 && pruneWritableDst < 0, "dst is reset/pruned although an update mask is present: fields outside the mask lose their values")
		} else {
			if hasW {
				rec("no update mask, writable restriction: only the writable fields are cleared", pruneWritableDst >= 0 && resetDst < 0 && pruneWritableDst < merge, "without update mask dst must be pruned with the writable mask (not reset) before the merge")
			} else {
				rec("no update mask, nothing restricted: dst reset before the merge", resetDst >= 0 && resetDst < merge, "without update mask and writable restriction dst must be reset before the merge")
			}
		}
		if rNil == "false" {
			rec("reset mask applied after the merge", resetMaskPrune > merge && merge >= 0, "the reset mask is not applied (or applied before the merge, which would write the fields again)")
		} else if rNil == "true" {
			rec("no reset mask: nothing pruned afterwards", resetMaskPrune < 0, "dst is pruned although no reset mask is configured")
		}
		rec("unset masked fields are cleared after the merge", pruneE > merge && merge >= 0, "pruneEmpty(dst, src, mask) does not follow the merge: a masked field absent from the written message keeps its old value")
	}
	for _, row := range an.SortedKeys(rows) {
		a := rows[row]
		c.Check(a.ok, rule, name+"|"+row, fn.Pos(), fmt.Sprintf("%d path(s)", a.n), a.why)
	}
}

// r055: pruneEmpty visits every field.
func r055(c *an.Ctx, rule string) {
	fn := mustFunc(c, rule, "pkg/masks", "", "pruneEmpty")
	if fn == nil {
		return
	}
	name := "pkg/masks.pruneEmpty"
	if len(fn.AnonFuncs) != 1 {
		c.Unk(rule, name+"|range callback", fn.Pos(), "expected one Range callback")
		return
	}
	cb := fn.AnonFuncs[0]
	c.SawFunc(an.FuncName(cb))
	all := true
	for _, r := range an.Returns(cb) {
		b, ok := an.ConstBool(r.Results[0])
		if !ok || !b {
			all = false
		}
	}
	c.Check(all, rule, name+"|the field iteration never stops early", cb.Pos(), "every return of the Range callback is true",
		"the Range callback can return false: protoreflect stops iterating, so after the first cleared field the remaining masked fields that are unset in the written message keep their old values")
	// clear exactly when the mask names the field and src does not have it
	okClear := false
	an.Instrs(cb, func(in ssa.Instruction) {
		call, ok := in.(*ssa.Call)
		if !ok || !call.Call.IsInvoke() || call.Call.Method.Name() != "Clear" {
			return
		}
		maskOK, hasOK := false, false
		for _, e := range an.GuardingEdges(call) {
			for _, v := range an.ValuesAt(e.If.Cond) {
				if ex, isEx := v.(*ssa.Extract); isEx && ex.Index == 1 && e.Branch {
					if _, isLk := ex.Tuple.(*ssa.Lookup); isLk {
						maskOK = true
					}
				}
				if cl, isCall := v.(*ssa.Call); isCall && cl.Call.IsInvoke() && cl.Call.Method.Name() == "Has" && !e.Branch {
					hasOK = true
				}
			}
		}
		if maskOK && hasOK {
			okClear = true
		}
	})
	c.Check(okClear, rule, name+"|clears exactly the masked fields that src lacks", cb.Pos(), "Clear guarded by mask[field] present and !src.Has(field)",
		"dst fields are cleared without checking that the mask names them and that the written message lacks them")
}
