// Package props holds the rule instances of each property (DESIGN.md §5).
package props

import (
	"sort"

	"scverif/an"
)

// Control is a control mutant (must fire) or silent variant (must stay
// green) applied in memory through the loader's overlay (G6).
type Control struct {
	Name   string
	File   string // repository-relative
	Old    string
	New    string
	More   []Edit // further edits applied together with the first
	Expect string // substring of an obligation key that must be reported (control mutant)
	Silent bool   // behaviour-preserving variant: no new violation may appear
}

// Edit is an additional text replacement of a control.
type Edit struct{ File, Old, New string }

// Prop is one property's rule set.
type Prop struct {
	ID          string
	Title       string
	Explanation string   // what is decided and what is not (evidence coverage.explanation)
	Assumptions []string // trusted base
	Run         func(c *an.Ctx)
	Controls    []Control
}

var registry = map[string]*Prop{}

func register(p *Prop) { registry[p.ID] = p }

// Get returns the property rule set or nil.
func Get(id string) *Prop { return registry[id] }

// IDs lists the registered property ids.
func IDs() []string {
	var ids []string
	for id := range registry {
		ids = append(ids, id)
	}
	sort.Strings(ids)
	return ids
}
