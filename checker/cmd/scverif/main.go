// Command scverif decides the structural clauses of properties C01..C20 of
// rvnlive/sc-golang from the source of /repo (DESIGN.md). It never executes
// code of the analysed repository.
package main

import (
	"encoding/json"
	"flag"
	"fmt"
	"os"
	"path/filepath"
	"runtime/debug"
	"sort"
	"strconv"
	"strings"
	"time"

	"golang.org/x/tools/go/ssa"

	"scverif/an"
	"scverif/props"
)

func usage() {
	fmt.Fprintln(os.Stderr, `usage:
  scverif check <Cxx> [--tier quick|thorough]
  scverif replay <replay.json>
  scverif list`)
	os.Exit(2)
}

func main() {
	if len(os.Args) < 2 {
		usage()
	}
	switch os.Args[1] {
	case "list":
		for _, id := range props.IDs() {
			fmt.Println(id, props.Get(id).Title)
		}
	case "check":
		if len(os.Args) < 3 {
			usage()
		}
		id := os.Args[2]
		fs := flag.NewFlagSet("check", flag.ExitOnError)
		tier := fs.String("tier", envOr("VERIF_TIER", "quick"), "quick or thorough")
		_ = fs.Parse(os.Args[3:])
		os.Exit(check(id, *tier))
	case "list-funcs":
		prog, err := an.Load(nil)
		if err != nil {
			fmt.Println(err)
			os.Exit(2)
		}
		seen := map[string]bool{}
		var lines []string
		for fn := range prog.AllFuncs {
			if fn.Parent() != nil || fn.Package() == nil || fn.Origin() != nil || !strings.HasPrefix(fn.Package().Pkg.Path(), an.ModulePath) {
				continue
			}
			if n := fn.String(); !seen[n] {
				seen[n] = true
				lines = append(lines, fn.Package().Pkg.Path()+"\t"+n+"\t"+an.SigString(fn))
			}
		}
		sort.Strings(lines)
		fmt.Println("# functions of the module on the reference tree: package, qualified name, signature (see an/known.go)")
		for _, n := range lines {
			fmt.Println(n)
		}
	case "list-fields":
		prog, err := an.Load(nil)
		if err != nil {
			fmt.Println(err)
			os.Exit(2)
		}
		fmt.Println("# struct fields of the module on the reference tree: struct, index, name, type (see an/known.go)")
		for _, l := range an.ListFields(prog) {
			fmt.Println(l)
		}
	case "list-transparent":
		prog, err := an.Load(nil)
		if err != nil {
			fmt.Println(err)
			os.Exit(2)
		}
		for fn := range prog.AllFuncs {
			an.Instrs(fn, func(in ssa.Instruction) {
				if call, ok := in.(*ssa.Call); ok {
					if h := an.TransparentCallee(call); h != nil {
						fmt.Printf("%s -> %s\n", an.FuncName(fn), an.FuncName(h))
					}
				}
			})
		}
	case "sweep":
		// scverif sweep: load the tree once and run every property's quick rules; prints one line per
		// new report. Writes no evidence (used to try many variants of the tree quickly).
		os.Exit(sweep())
	case "render":
		// debugging aid: scverif render <pkg rel> <ServiceGoName>  prints the router template instance
		prog, err := an.Load(nil)
		if err != nil {
			fmt.Println(err)
			os.Exit(2)
		}
		fmt.Print(props.RenderRouter(prog, os.Args[2], os.Args[3]))
	case "mut":
		prog, err := an.Load(nil)
		if err != nil {
			fmt.Println(err)
			os.Exit(2)
		}
		props.DebugMut(prog, os.Args[2], os.Args[3], os.Args[4])
	case "dtree":
		// debugging aid: scverif dtree <pkg> <recv|-> <name> [anon index]
		prog, err := an.Load(nil)
		if err != nil {
			fmt.Println(err)
			os.Exit(2)
		}
		recv := os.Args[3]
		if recv == "-" {
			recv = ""
		}
		fn := prog.Func(os.Args[2], recv, os.Args[4])
		if fn == nil {
			fmt.Println("not found")
			os.Exit(2)
		}
		if len(os.Args) > 5 {
			i, _ := strconv.Atoi(os.Args[5])
			fn = fn.AnonFuncs[i]
		}
		for _, l := range an.DecisionTree(fn, an.DTConfig{Domains: map[string][]int64{"a.ChangeType": {0, 1, 2, 3, 4}, "b.ChangeType": {0, 1, 2, 3, 4}}}) {
			fmt.Printf("IF %v\n   calls=%v\n   => %v undec=%q panics=%v\n", l.Assign, l.Calls, l.Returns, l.Undec, l.Panics)
		}
	case "replay":
		if len(os.Args) < 3 {
			usage()
		}
		os.Exit(replay(os.Args[2]))
	default:
		usage()
	}
}

func envOr(k, d string) string {
	if v := os.Getenv(k); v != "" {
		return v
	}
	return d
}

func seed() int {
	n, _ := strconv.Atoi(os.Getenv("VERIF_SEED"))
	return n
}

// runProp loads the program (with an optional overlay) and runs the rules.
// Panics inside rules are turned into an undecided obligation (fail closed).
func runProp(p *props.Prop, tier string, overlay map[string][]byte) (c *an.Ctx, err error) {
	prog, err := an.Load(overlay)
	if err != nil {
		return nil, err
	}
	c = an.NewCtx(prog, p.ID, tier)
	for _, r := range prog.Renames() {
		c.Note("rename recognised: %s", r)
	}
	func() {
		defer func() {
			if r := recover(); r != nil {
				c.Unk("R00.0", "checker-panic", 0, fmt.Sprintf("analysis panicked: %v\n%s", r, debug.Stack()))
			}
		}()
		p.Run(c)
	}()
	c.Finish()
	return c, nil
}

func check(id, tier string) int {
	start := time.Now()
	p := props.Get(id)
	if p == nil {
		fmt.Fprintf(os.Stderr, "unknown property %s\n", id)
		return 2
	}
	if tier != "quick" && tier != "thorough" {
		fmt.Fprintf(os.Stderr, "unknown tier %s\n", tier)
		return 2
	}
	ff, err := an.LoadFindings()
	if err != nil {
		fmt.Fprintln(os.Stderr, err)
		return 2
	}
	c, err := runProp(p, tier, nil)
	if err != nil {
		// a tree that does not load cannot be analysed: fail closed with a replay file
		fmt.Printf("LOAD-FAILED: %v\n", err)
		rp := filepath.Join(an.VerifDir(), "evidence", "replay", id+"-load.json")
		_ = os.MkdirAll(filepath.Dir(rp), 0o755)
		b, _ := json.MarshalIndent(map[string]string{"property": id, "error": err.Error()}, "", " ")
		_ = os.WriteFile(rp, b, 0o644)
		fmt.Printf("VIOLATION property=%s replay=%s\n", id, rp)
		return 1
	}
	res := c.Result(ff)
	extra := map[string]any{}
	selfFail := false
	if tier == "thorough" {
		fired, missed, skipped, silentOK, silentBad, log := runControls(p, ff, res)
		extra["controls_run"] = fired + missed + silentOK + silentBad
		extra["controls_fired"] = fired
		extra["controls_missed"] = missed
		extra["controls_skipped"] = skipped
		extra["silent_variants_green"] = silentOK
		extra["silent_variants_alarmed"] = silentBad
		extra["controls_log"] = log
		for _, l := range log {
			fmt.Println("control:", l)
		}
		if missed > 0 || silentBad > 0 {
			selfFail = true
		}
	}
	code := res.Emit(start, seed(), extra, p.Explanation, p.Assumptions)
	if code == 0 && selfFail {
		fmt.Println("CHECKER-SELFTEST-FAILED: a control mutant was missed or a silent variant raised an alarm (see controls_log); this is a defect of the checker, not of the tree")
		return 2
	}
	return code
}

// runControls applies each control through the overlay and re-runs the rules.
func runControls(p *props.Prop, ff *an.FindingsFile, base *an.Result) (fired, missed, skipped, silentOK, silentBad int, log []string) {
	baseKeys := map[string]bool{}
	for _, o := range base.New {
		baseKeys[o.Key] = true
	}
	for _, o := range base.Known {
		baseKeys[o.Key] = true
	}
	for _, ctl := range p.Controls {
		file := filepath.Join(an.RepoDir(), ctl.File)
		src, err := os.ReadFile(file)
		if err != nil || strings.Count(string(src), ctl.Old) != 1 {
			skipped++
			log = append(log, fmt.Sprintf("%s: skipped (anchor text occurs %d times in %s)", ctl.Name, strings.Count(string(src), ctl.Old), ctl.File))
			continue
		}
		mut := strings.Replace(string(src), ctl.Old, ctl.New, 1)
		overlay := map[string][]byte{file: []byte(mut)}
		okMore := true
		for _, e := range ctl.More {
			f2 := filepath.Join(an.RepoDir(), e.File)
			cur, has := overlay[f2]
			if !has {
				cur, err = os.ReadFile(f2)
				if err != nil {
					okMore = false
					break
				}
			}
			if strings.Count(string(cur), e.Old) < 1 {
				okMore = false
				break
			}
			overlay[f2] = []byte(strings.Replace(string(cur), e.Old, e.New, 1))
		}
		if !okMore {
			skipped++
			log = append(log, fmt.Sprintf("%s: skipped (anchor text of an additional edit not found)", ctl.Name))
			continue
		}
		c, err := runProp(p, "quick", overlay)
		if err != nil {
			skipped++
			log = append(log, fmt.Sprintf("%s: skipped (mutant does not load: %v)", ctl.Name, err))
			continue
		}
		r := c.Result(ff)
		var newKeys []string
		for _, o := range r.New {
			if !baseKeys[o.Key] {
				newKeys = append(newKeys, string(o.Verdict)+":"+o.Key)
			}
		}
		if ctl.Silent {
			if len(newKeys) == 0 {
				silentOK++
				log = append(log, fmt.Sprintf("%s: silent variant stays green", ctl.Name))
			} else {
				silentBad++
				log = append(log, fmt.Sprintf("%s: SILENT VARIANT RAISED %v", ctl.Name, newKeys))
			}
			continue
		}
		hit := false
		for _, k := range newKeys {
			if strings.Contains(k, ctl.Expect) {
				hit = true
			}
		}
		if hit {
			fired++
			log = append(log, fmt.Sprintf("%s: fired (%s)", ctl.Name, ctl.Expect))
		} else {
			missed++
			log = append(log, fmt.Sprintf("%s: MISSED, expected %q, new reports: %v", ctl.Name, ctl.Expect, newKeys))
		}
	}
	return
}

func replay(path string) int {
	b, err := os.ReadFile(path)
	if err != nil {
		fmt.Fprintln(os.Stderr, err)
		return 2
	}
	var rp an.Replay
	if err := json.Unmarshal(b, &rp); err != nil || rp.Property == "" {
		fmt.Fprintf(os.Stderr, "not a replay file: %v\n", err)
		return 2
	}
	p := props.Get(rp.Property)
	if p == nil {
		fmt.Fprintf(os.Stderr, "unknown property %s\n", rp.Property)
		return 2
	}
	c, err := runProp(p, "quick", nil)
	if err != nil {
		fmt.Printf("LOAD-FAILED: %v\n", err)
		return 1
	}
	found := false
	for _, o := range c.Obls {
		if o.Key == rp.Obligation.Key {
			found = true
			fmt.Printf("%s %s at %s: %s\n", strings.ToUpper(string(o.Verdict)), o.Key, o.Pos, o.Detail)
			for _, s := range o.Path {
				fmt.Printf("    path: %s\n", s)
			}
			if o.Verdict != an.OK {
				fmt.Printf("VIOLATION property=%s replay=%s\n", rp.Property, path)
				return 1
			}
		}
	}
	if !found {
		fmt.Printf("obligation %s no longer exists on the current tree\n", rp.Obligation.Key)
	}
	return 0
}

func sweep() int {
	ff, err := an.LoadFindings()
	if err != nil {
		fmt.Fprintln(os.Stderr, err)
		return 2
	}
	prog, err := an.Load(nil)
	if err != nil {
		fmt.Printf("SWEEP LOAD-FAILED %v\n", err)
		return 1
	}
	code := 0
	for _, id := range props.IDs() {
		p := props.Get(id)
		c := an.NewCtx(prog, p.ID, "quick")
		func() {
			defer func() {
				if r := recover(); r != nil {
					c.Unk("R00.0", "checker-panic", 0, fmt.Sprintf("analysis panicked: %v", r))
				}
			}()
			p.Run(c)
		}()
		c.Finish()
		res := c.Result(ff)
		for _, o := range res.New {
			code = 1
			fmt.Printf("SWEEP %s %s %s\n", id, o.Verdict, o.Key)
			if os.Getenv("SWEEP_DETAIL") != "" {
				d := o.Detail
				if len(d) > 400 {
					d = d[:400]
				}
				fmt.Printf("      at %s: %s\n", o.Pos, d)
			}
		}
	}
	fmt.Printf("SWEEP done exit=%d\n", code)
	return code
}
