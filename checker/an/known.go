package an

import (
	_ "embed"
	"fmt"
	"go/types"
	"sort"
	"strings"
	"sync"

	"golang.org/x/tools/go/ssa"
)

// known_funcs.txt / known_fields.txt describe the module as it was when the rules were confirmed against it
// (regenerate deliberately with `scverif list-funcs` / `scverif list-fields`). They are used for two things only,
// neither of which decides a verdict by itself:
//   - a callee that is NOT in the list is a helper the rules have never seen, so the analyses look through it
//     instead of treating the call as an opaque atom (TransparentCallee);
//   - a function or struct field that disappeared while exactly one new one with the same signature / type and
//     position appeared is taken to be a RENAME: the rules keep addressing it by its reference name.
//
//go:embed known_funcs.txt
var knownFuncsTxt string

//go:embed known_fields.txt
var knownFieldsTxt string

type knownFunc struct{ pkg, qname, sig string }

type knownField struct {
	strct string
	idx   int
	name  string
	typ   string
}

var (
	knownOnce   sync.Once
	knownSet    map[string]bool
	knownFuncsL []knownFunc
	knownFlds   map[string][]knownField
)

func loadKnown() {
	knownOnce.Do(func() {
		knownSet = map[string]bool{}
		for _, l := range strings.Split(knownFuncsTxt, "\n") {
			if l = strings.TrimSpace(l); l == "" || strings.HasPrefix(l, "#") {
				continue
			}
			p := strings.Split(l, "\t")
			kf := knownFunc{qname: p[0]}
			if len(p) == 3 {
				kf = knownFunc{pkg: p[0], qname: p[1], sig: p[2]}
			}
			knownSet[kf.qname] = true
			knownFuncsL = append(knownFuncsL, kf)
		}
		knownFlds = map[string][]knownField{}
		for _, l := range strings.Split(knownFieldsTxt, "\n") {
			if l = strings.TrimSpace(l); l == "" || strings.HasPrefix(l, "#") {
				continue
			}
			p := strings.Split(l, "\t")
			if len(p) != 4 {
				continue
			}
			var idx int
			fmt.Sscanf(p[1], "%d", &idx)
			knownFlds[p[0]] = append(knownFlds[p[0]], knownField{p[0], idx, p[2], p[3]})
		}
	})
}

// KnownFunc reports whether the qualified function name existed on the reference tree.
func KnownFunc(qname string) bool {
	loadKnown()
	if knownSet[qname] {
		return true
	}
	// a method keeps its identity when its receiver changes between T and *T
	switch {
	case strings.HasPrefix(qname, "(*"):
		return knownSet["("+qname[2:]]
	case strings.HasPrefix(qname, "("):
		return knownSet["(*"+qname[1:]]
	}
	return false
}

func sigString(fn *ssa.Function) string {
	return types.TypeString(fn.Signature, func(p *types.Package) string { return p.Path() })
}

// computeAliases detects renamed functions and struct fields of the loaded program (see above).
func (p *Program) computeAliases() {
	loadKnown()
	p.funcAlias = map[*ssa.Function]string{}
	p.aliasByOld = map[string]*ssa.Function{}
	p.fieldAlias = map[string]string{}
	// functions
	present := map[string]*ssa.Function{}
	for fn := range p.AllFuncs {
		if fn.Parent() != nil || fn.Package() == nil || fn.Origin() != nil {
			continue
		}
		present[fn.String()] = fn
	}
	type group struct {
		missing []knownFunc
		added   []*ssa.Function
	}
	groups := map[string]*group{}
	key := func(pkg, q, sig string) string {
		// the receiver type is part of the qualified name: "(*pkg.T).name" -> "(*pkg.T)"
		recv := ""
		if i := strings.LastIndex(q, ")."); strings.HasPrefix(q, "(") && i > 0 {
			recv = q[:i+1]
		}
		return pkg + "|" + recv + "|" + sig
	}
	for _, kf := range knownFuncsL {
		if kf.sig == "" {
			continue
		}
		if _, ok := present[kf.qname]; !ok {
			k := key(kf.pkg, kf.qname, kf.sig)
			if groups[k] == nil {
				groups[k] = &group{}
			}
			groups[k].missing = append(groups[k].missing, kf)
		}
	}
	for q, fn := range present {
		if knownSet[q] {
			continue
		}
		k := key(fn.Package().Pkg.Path(), q, sigString(fn))
		if groups[k] == nil {
			groups[k] = &group{}
		}
		groups[k].added = append(groups[k].added, fn)
	}
	// a method whose receiver changed between T and *T is the same method
	flip := func(q string) string {
		switch {
		case strings.HasPrefix(q, "(*"):
			return "(" + q[2:]
		case strings.HasPrefix(q, "("):
			return "(*" + q[1:]
		}
		return ""
	}
	flipped := map[*ssa.Function]bool{}
	for q, fn := range present {
		if knownSet[q] {
			continue
		}
		if o := flip(q); o != "" && knownSet[o] && present[o] == nil {
			p.funcAlias[fn] = o
			p.aliasByOld[o] = fn
			flipped[fn] = true
		}
	}
	for _, g := range groups {
		var missing []knownFunc
		for _, m := range g.missing {
			if p.aliasByOld[m.qname] == nil {
				missing = append(missing, m)
			}
		}
		var added []*ssa.Function
		for _, a := range g.added {
			if !flipped[a] {
				added = append(added, a)
			}
		}
		g.missing, g.added = missing, added
		if len(g.missing) == 1 && len(g.added) == 1 {
			p.funcAlias[g.added[0]] = g.missing[0].qname
			p.aliasByOld[g.missing[0].qname] = g.added[0]
		}
	}
	// a method turned into a function of the same name (or back): same package, the name unique on both sides
	bare := func(q string) string {
		if i := strings.LastIndex(q, "."); i >= 0 {
			return q[i+1:]
		}
		return q
	}
	missingByName := map[string][]knownFunc{}
	for _, kf := range knownFuncsL {
		if _, ok := present[kf.qname]; !ok && p.aliasByOld[kf.qname] == nil {
			k := kf.pkg + "|" + bare(kf.qname)
			missingByName[k] = append(missingByName[k], kf)
		}
	}
	addedByName := map[string][]*ssa.Function{}
	for q, fn := range present {
		if knownSet[q] || p.funcAlias[fn] != "" {
			continue
		}
		k := fn.Package().Pkg.Path() + "|" + fn.Name()
		addedByName[k] = append(addedByName[k], fn)
	}
	for k, ms := range missingByName {
		as := addedByName[k]
		if len(ms) == 1 && len(as) == 1 && (strings.HasPrefix(ms[0].qname, "(") != (as[0].Signature.Recv() != nil)) {
			p.funcAlias[as[0]] = ms[0].qname
			p.aliasByOld[ms[0].qname] = as[0]
		}
	}
	// struct fields
	for _, pk := range p.Pkgs {
		scope := pk.Types.Scope()
		for _, n := range scope.Names() {
			tn, ok := scope.Lookup(n).(*types.TypeName)
			if !ok {
				continue
			}
			st, ok := tn.Type().Underlying().(*types.Struct)
			if !ok {
				continue
			}
			sq := pk.Types.Path() + "." + n
			old := knownFlds[sq]
			if len(old) == 0 || len(old) != st.NumFields() {
				continue
			}
			oldNames, newNames := map[string]bool{}, map[string]bool{}
			for _, o := range old {
				oldNames[o.name] = true
			}
			for i := 0; i < st.NumFields(); i++ {
				newNames[st.Field(i).Name()] = true
			}
			sort.Slice(old, func(i, j int) bool { return old[i].idx < old[j].idx })
			for i := 0; i < st.NumFields(); i++ {
				f := st.Field(i)
				o := old[i]
				if f.Name() != o.name && !newNames[o.name] && !oldNames[f.Name()] &&
					types.TypeString(f.Type(), func(p *types.Package) string { return p.Path() }) == o.typ {
					p.fieldAlias[sq+"."+f.Name()] = o.name
				}
			}
		}
	}
}

// refName: the reference name of fn if it is a renamed function, "" otherwise.
func refName(fn *ssa.Function) string {
	if currentProg == nil || fn == nil {
		return ""
	}
	return currentProg.funcAlias[fn]
}

// SigString is the signature text stored in known_funcs.txt.
func SigString(fn *ssa.Function) string { return sigString(fn) }

// ListFields renders known_fields.txt for the loaded program.
func ListFields(p *Program) []string {
	var out []string
	for _, pk := range p.Pkgs {
		scope := pk.Types.Scope()
		for _, n := range scope.Names() {
			tn, ok := scope.Lookup(n).(*types.TypeName)
			if !ok {
				continue
			}
			st, ok := tn.Type().Underlying().(*types.Struct)
			if !ok {
				continue
			}
			for i := 0; i < st.NumFields(); i++ {
				f := st.Field(i)
				out = append(out, fmt.Sprintf("%s.%s\t%d\t%s\t%s", pk.Types.Path(), n, i, f.Name(), types.TypeString(f.Type(), func(p *types.Package) string { return p.Path() })))
			}
		}
	}
	sort.Strings(out)
	return out
}

// Renames lists what was recognised as renamed (for the evidence).
func (p *Program) Renames() []string {
	var out []string
	for fn, old := range p.funcAlias {
		out = append(out, fmt.Sprintf("function %s is addressed by its reference name %s", ModRel(fn.String()), ModRel(old)))
	}
	for k, old := range p.fieldAlias {
		out = append(out, fmt.Sprintf("field %s is addressed by its reference name %s", ModRel(k), old))
	}
	sort.Strings(out)
	return out
}
