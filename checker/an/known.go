package an

import (
	_ "embed"
	"strings"
	"sync"
)

// known_funcs.txt lists every function of the module that existed when the rules were confirmed against the
// tree (regenerate deliberately with `scverif list-funcs > an/known_funcs.txt`). It is used for one thing
// only: a callee that is NOT in the list is a helper the rules have never seen, so the interpreters look
// through it instead of treating the call as an opaque atom. It never decides a verdict by itself.
//
//go:embed known_funcs.txt
var knownFuncsTxt string

var (
	knownOnce sync.Once
	knownSet  map[string]bool
)

// KnownFunc reports whether the qualified function name existed on the reference tree.
func KnownFunc(qname string) bool {
	knownOnce.Do(func() {
		knownSet = map[string]bool{}
		for _, l := range strings.Split(knownFuncsTxt, "\n") {
			if l = strings.TrimSpace(l); l != "" && !strings.HasPrefix(l, "#") {
				knownSet[l] = true
			}
		}
	})
	return knownSet[qname]
}
