package an

import (
	"go/token"
	"go/types"
	"sort"
	"strings"

	"golang.org/x/tools/go/ssa"
)

// LockWorld holds the inter-procedural lock-set results for the module's
// hand-written functions: the entry lock set of every function and the
// per-instruction lock sets derived from it.
type LockWorld struct {
	P     *Program
	Entry map[*ssa.Function]LockSet
	Info  map[*ssa.Function]*LockInfo
	// why records how a function's entry set was derived (for reports).
	Why map[*ssa.Function]string
}

// synchronous higher-order functions outside the module: the function value
// passed to them is invoked before they return, on the calling goroutine.
var syncHigherOrder = map[string]bool{
	"sort.Slice": true, "sort.SliceStable": true, "sort.Search": true,
	"slices.SortFunc": true, "slices.SortStableFunc": true, "slices.IndexFunc": true,
	"slices.ContainsFunc": true, "slices.BinarySearchFunc": true, "sort.SearchStrings": true,
}

// BuildLockWorld computes entry lock sets to a fixpoint:
//   - exported functions/methods, functions whose address is taken, and
//     goroutine bodies start with the empty set;
//   - unexported functions/methods start with the meet over their static
//     call sites of the caller's set (translated to the callee's names);
//   - a closure passed as an argument to a function that only *calls* the
//     corresponding parameter starts with caller-set-at-the-call ∪
//     callee-internal set at the invocation sites (translated back);
//   - a closure passed to a known synchronous external (sort.Slice, …), or
//     invoked immediately, starts with the caller's set at that point;
//   - a deferred closure starts with the meet of the sets at returns.
func BuildLockWorld(p *Program) *LockWorld {
	w := &LockWorld{P: p, Entry: map[*ssa.Function]LockSet{}, Info: map[*ssa.Function]*LockInfo{}, Why: map[*ssa.Function]string{}}
	var fns []*ssa.Function
	for fn := range p.AllFuncs {
		if p.IsGenerated(fn.Pos()) {
			continue
		}
		fns = append(fns, fn)
	}
	SortFuncs(fns)
	inScope := map[*ssa.Function]bool{}
	for _, f := range fns {
		inScope[f] = true
	}

	// which functions have their value taken other than as a static callee or
	// as a closure argument handled below
	escaped := map[*ssa.Function]bool{}
	for _, fn := range fns {
		Instrs(fn, func(in ssa.Instruction) {
			var ops []*ssa.Value
			for _, op := range in.Operands(ops) {
				if op == nil || *op == nil {
					continue
				}
				f, ok := (*op).(*ssa.Function)
				if !ok {
					continue
				}
				if call, isCall := in.(ssa.CallInstruction); isCall && call.Common().Value == f {
					if _, isGo := in.(*ssa.Go); isGo {
						escaped[f] = true
					}
					continue
				}
				escaped[f] = true
			}
		})
	}

	top := func(fn *ssa.Function) bool {
		// functions that start with the empty set regardless of callers
		if fn.Parent() != nil {
			return false
		}
		if escaped[fn] {
			return true
		}
		obj := fn.Object()
		if obj == nil {
			return true // synthetic wrappers, init
		}
		if obj.Exported() {
			// exported method of unexported type still callable through interfaces
			return true
		}
		if fn.Signature.Recv() != nil {
			// unexported method: may still satisfy an interface; treat as helper only if
			// it has static callers (decided below)
			return false
		}
		return false
	}

	hasStaticCaller := map[*ssa.Function]bool{}
	for _, fn := range fns {
		Instrs(fn, func(in ssa.Instruction) {
			if call, ok := in.(ssa.CallInstruction); ok {
				if _, isGo := in.(*ssa.Go); isGo {
					return
				}
				if f := call.Common().StaticCallee(); f != nil {
					hasStaticCaller[f] = true
				}
			}
			// a method used as a method value is entered through the closure-argument rules below
			if mc, ok := in.(*ssa.MakeClosure); ok {
				if f := closureFn(mc); f != nil && f != mc.Fn.(*ssa.Function) {
					hasStaticCaller[f] = true
				}
			}
		})
	}

	const maxRounds = 12
	for round := 0; round < maxRounds; round++ {
		changed := false
		// (re)compute infos with the current entries
		for _, fn := range fns {
			e, ok := w.Entry[fn]
			if !ok {
				if top(fn) {
					e = LockSet{}
					w.Entry[fn] = e
					w.Why[fn] = "exported / address taken: empty entry set"
				} else {
					continue
				}
			}
			w.Info[fn] = Locks(fn, e)
		}
		// derive entries of helpers and closures
		cand := map[*ssa.Function]LockSet{}
		candWhy := map[*ssa.Function][]string{}
		add := func(f *ssa.Function, s LockSet, why string) {
			if cur, ok := cand[f]; ok {
				cand[f] = meet(cur, s)
			} else {
				cand[f] = s.clone()
			}
			candWhy[f] = append(candWhy[f], why)
		}
		for _, fn := range fns {
			li := w.Info[fn]
			if li == nil {
				continue
			}
			Instrs(fn, func(in ssa.Instruction) {
				switch x := in.(type) {
				case *ssa.Go:
					if f := goTarget(x); f != nil && inScope[f] {
						add(f, LockSet{}, "goroutine body")
					}
					// closures passed as arguments to a go call start empty too
					for _, a := range x.Call.Args {
						if f := closureFn(a); f != nil && inScope[f] {
							add(f, LockSet{}, "argument of go statement")
						}
					}
					return
				case *ssa.Defer:
					if f := closureFn(x.Call.Value); f != nil && inScope[f] {
						add(f, li.Exit, "deferred closure in "+FuncName(fn))
					} else if f := x.Call.StaticCallee(); f != nil && inScope[f] && !top(f) {
						add(f, TranslateToCallee(x, f, li.Exit), "deferred call in "+FuncName(fn))
					}
					return
				}
				call, ok := in.(ssa.CallInstruction)
				if !ok {
					// closures stored / returned: empty set
					if mc, isMC := in.(*ssa.MakeClosure); isMC {
						f := mc.Fn.(*ssa.Function)
						if inScope[f] && closureEscapes(mc) {
							add(f, LockSet{}, "closure value escapes in "+FuncName(fn))
						}
					}
					return
				}
				held := li.At(in)
				cc := call.Common()
				// immediately invoked closure or static call
				if f := closureFn(cc.Value); f != nil && inScope[f] {
					add(f, held, "invoked in "+FuncName(fn))
				} else if f := cc.StaticCallee(); f != nil && inScope[f] && !top(f) && f.Parent() == nil {
					add(f, TranslateToCallee(call, f, held), "called from "+FuncName(fn))
				}
				// closures passed as arguments
				callee := cc.StaticCallee()
				name := CalleeName(call)
				for i, a := range cc.Args {
					f := closureFn(a)
					if f == nil || !inScope[f] {
						continue
					}
					switch {
					case callee != nil && inScope[callee] && len(callee.Blocks) > 0:
						pi := i
						if inner, ok := paramCallLocksDeep(callee, pi, inScope, 0); ok {
							s := held.clone()
							for k, v := range TranslateToCaller(call, callee, inner) {
								if s[k] < v {
									s[k] = v
								}
							}
							// the callee's own entry locks (other than params) are not visible by name
							add(f, s, "callback of "+FuncName(callee)+" from "+FuncName(fn))
						} else {
							add(f, LockSet{}, "function value passed to "+FuncName(callee)+" which does more than call it")
						}
					case syncHigherOrder[name]:
						add(f, held, "synchronous callback of "+name+" in "+FuncName(fn))
					default:
						add(f, LockSet{}, "function value passed to "+name)
					}
				}
			})
		}
		for f, s := range cand {
			if top(f) {
				continue
			}
			old, ok := w.Entry[f]
			if !ok || !equalLS(old, s) {
				// entries only shrink after the first assignment
				if ok {
					s = meet(old, s)
					if equalLS(old, s) {
						continue
					}
				}
				w.Entry[f] = s
				sort.Strings(candWhy[f])
				w.Why[f] = strings.Join(uniq(candWhy[f]), "; ")
				changed = true
			}
		}
		// top-level functions nobody in scope calls statically: empty
		if round == 0 {
			for _, fn := range fns {
				if _, ok := w.Entry[fn]; !ok && fn.Parent() == nil && !hasStaticCaller[fn] {
					w.Entry[fn] = LockSet{}
					w.Why[fn] = "no static caller found: empty entry set"
					changed = true
				}
			}
		}
		if !changed {
			// break cycles (recursive helpers): whatever is still unresolved starts empty
			for _, fn := range fns {
				if _, ok := w.Entry[fn]; !ok {
					w.Entry[fn] = LockSet{}
					w.Why[fn] = "unresolved (recursion or unreachable): empty entry set"
					changed = true
				}
			}
		}
		if !changed {
			break
		}
	}
	for _, fn := range fns {
		if _, ok := w.Entry[fn]; !ok {
			w.Entry[fn] = LockSet{}
		}
		w.Info[fn] = Locks(fn, w.Entry[fn])
	}
	return w
}

func uniq(s []string) []string {
	var out []string
	for i, x := range s {
		if i == 0 || x != s[i-1] {
			out = append(out, x)
		}
	}
	return out
}

func goTarget(g *ssa.Go) *ssa.Function {
	if f := closureFn(g.Call.Value); f != nil {
		return f
	}
	return g.Call.StaticCallee()
}

// ClosureFn returns the function behind a MakeClosure or plain function value.
func ClosureFn(v ssa.Value) *ssa.Function { return closureFn(v) }

func closureFn(v ssa.Value) *ssa.Function {
	switch x := v.(type) {
	case *ssa.MakeClosure:
		f := x.Fn.(*ssa.Function)
		// a method value (`r.stored`): the body that runs is the method
		if strings.HasPrefix(f.Synthetic, "bound method wrapper") {
			var target *ssa.Function
			Instrs(f, func(in ssa.Instruction) {
				if call, ok := in.(ssa.CallInstruction); ok {
					if t := call.Common().StaticCallee(); t != nil && len(t.Blocks) > 0 {
						target = t
					}
				}
			})
			if target != nil && !KnownFunc(FuncQName(target)) {
				return target
			}
		}
		return f
	case *ssa.Function:
		if x.Parent() != nil {
			return x
		}
	case *ssa.ChangeType:
		return closureFn(x.X)
	}
	return nil
}

// paramCallLocksDeep returns, for the function-valued parameter idx of callee, the locks (named relative to callee) held
// at every place the parameter is invoked: directly in callee, or in a helper callee hands it on to (readLocked(mu, get)
// calling get() between mu.RLock and mu.RUnlock). ok is false when the parameter is used in any other way (stored,
// started as a goroutine, deferred, handed to a function outside the analysed program) or is never invoked.
func paramCallLocksDeep(callee *ssa.Function, idx int, inScope map[*ssa.Function]bool, depth int) (LockSet, bool) {
	if idx >= len(callee.Params) || depth > 4 || len(callee.Blocks) == 0 {
		return nil, false
	}
	prm := callee.Params[idx]
	li := Locks(callee, nil)
	var res LockSet
	n := 0
	join := func(s LockSet) {
		n++
		if res == nil {
			res = s.clone()
		} else {
			res = meet(res, s)
		}
	}
	for _, u := range Referrers(prm) {
		switch x := u.(type) {
		case *ssa.DebugRef:
		case *ssa.Call:
			if x.Call.Value == prm {
				join(li.At(x))
				continue
			}
			g := x.Call.StaticCallee()
			if g == nil || !inScope[g] || g == callee {
				return nil, false
			}
			for j, a := range x.Call.Args {
				if a != prm {
					continue
				}
				inner, ok := paramCallLocksDeep(g, j, inScope, depth+1)
				if !ok {
					return nil, false
				}
				s := li.At(x).clone()
				for k, v := range TranslateToCaller(x, g, inner) {
					if s[k] < v {
						s[k] = v
					}
				}
				join(s)
			}
		default:
			return nil, false
		}
	}
	if n == 0 {
		return nil, false
	}
	return res, true
}

// onlyCalled reports whether parameter idx of callee is used only as the
// target of ordinary (synchronous) calls.
func onlyCalled(callee *ssa.Function, idx int) bool {
	if idx >= len(callee.Params) {
		return false
	}
	prm := callee.Params[idx]
	ok := true
	n := 0
	for _, u := range Referrers(prm) {
		switch x := u.(type) {
		case *ssa.Call:
			if x.Call.Value == prm {
				n++
				continue
			}
			ok = false
		case *ssa.DebugRef:
		default:
			ok = false
		}
	}
	return ok && n > 0
}

// closureEscapes reports whether a closure value is used other than as a
// call target / call argument (stored, returned, sent…).
func closureEscapes(mc *ssa.MakeClosure) bool {
	for _, u := range Referrers(mc) {
		switch x := u.(type) {
		case ssa.CallInstruction:
			_ = x
		case *ssa.DebugRef:
		case *ssa.ChangeType:
			// e.g. conversion to a named func type: follow one level
			for _, u2 := range Referrers(x) {
				if _, ok := u2.(ssa.CallInstruction); !ok {
					return true
				}
			}
		default:
			return true
		}
	}
	return false
}

// At returns the lock set before instr.
func (w *LockWorld) At(in ssa.Instruction) LockSet {
	if li := w.Info[in.Parent()]; li != nil {
		return li.At(in)
	}
	return LockSet{}
}

// ---------------------------------------------------------------- guarded fields

// FieldAccess is one access to a field of a mutex-bearing struct.
type FieldAccess struct {
	Instr    ssa.Instruction
	Struct   string // qualified struct type name ("" for anonymous structs: uses field path)
	Field    string
	LockPath string // access path of the sibling mutex ("c.mu")
	Write    bool
	Fresh    bool // base object allocated in this function (constructor)
	Kind     string
	Base     string // access path of the object the field belongs to ("w", "c.config"), "" when it has none
}

// mutexFieldOf returns the name of the (first) mutex field of struct type t.
func mutexFieldOf(t types.Type) (string, bool) {
	if p, ok := t.Underlying().(*types.Pointer); ok {
		t = p.Elem()
	}
	st, ok := t.Underlying().(*types.Struct)
	if !ok {
		return "", false
	}
	for i := 0; i < st.NumFields(); i++ {
		ft := st.Field(i).Type()
		n := NamedTypeName(ft)
		if _, isPtr := ft.(*types.Pointer); isPtr {
			continue
		}
		if n == "sync.Mutex" || n == "sync.RWMutex" {
			return st.Field(i).Name(), true
		}
	}
	return "", false
}

// structLabel names the struct a FieldAddr addresses.
func structLabel(t types.Type) string {
	n := NamedTypeName(t)
	if n != "" {
		return ModRel(n)
	}
	return ""
}

// isFresh reports whether v is (derived by field addressing from) an
// allocation made in the same function.
func isFresh(v ssa.Value) bool {
	for depth := 0; depth < 10; depth++ {
		switch x := v.(type) {
		case *ssa.Alloc:
			return true
		case *ssa.FieldAddr:
			v = x.X
		case *ssa.UnOp:
			if x.Op != token.MUL {
				return false
			}
			// load of a local pointer variable holding a fresh alloc
			if cell := CellOf(x.X); cell != nil {
				st := StoresTo(cell)
				if len(st) == 0 {
					return false
				}
				for _, s := range st {
					if !isFresh(s.Val) {
						return false
					}
				}
				return true
			}
			return false
		default:
			return false
		}
	}
	return false
}

// FieldAccesses lists every access in fn to a non-mutex field of a struct
// that has a mutex field.
func FieldAccesses(fn *ssa.Function) []FieldAccess { return fieldAccesses(fn, false) }

// LockFreeFieldAccesses lists every access in fn to a field of a named struct of the module that has NO mutex field
// (LockPath is empty): such a struct is safe to share only while nobody writes it.
func LockFreeFieldAccesses(fn *ssa.Function) []FieldAccess { return fieldAccesses(fn, true) }

func fieldAccesses(fn *ssa.Function, lockFree bool) []FieldAccess {
	var out []FieldAccess
	Instrs(fn, func(in ssa.Instruction) {
		fa, ok := in.(*ssa.FieldAddr)
		if !ok {
			return
		}
		mf, has := mutexFieldOf(fa.X.Type())
		if has == lockFree {
			return
		}
		if lockFree && !strings.HasPrefix(NamedTypeName(fa.X.Type()), ModulePath) {
			return
		}
		fname := fieldName(fa.X.Type(), fa.Field)
		if fname == mf {
			return
		}
		base := AccessPath(fa.X)
		lockPath := ""
		if base != "" {
			lockPath = base + "." + mf
		}
		label := structLabel(fa.X.Type())
		if label == "" {
			label = "struct@" + AccessPathType(fa.X)
		}
		fresh := isFresh(fa.X)
		n0 := len(out)
		defer func() {
			for i := n0; i < len(out); i++ {
				out[i].Base = base
			}
		}()
		// classify each use of the field address
		for _, u := range Referrers(fa) {
			switch x := u.(type) {
			case *ssa.Store:
				if x.Addr == fa {
					out = append(out, FieldAccess{Instr: x, Struct: label, Field: fname, LockPath: lockPath, Write: true, Fresh: fresh, Kind: "store"})
				}
			case *ssa.UnOp:
				if x.Op != token.MUL {
					continue
				}
				// a load: look at what is done with the loaded value
				wrote := false
				for _, u2 := range Referrers(x) {
					switch y := u2.(type) {
					case *ssa.MapUpdate:
						if y.Map == x {
							out = append(out, FieldAccess{Instr: y, Struct: label, Field: fname, LockPath: lockPath, Write: true, Fresh: fresh, Kind: "map update"})
							wrote = true
						}
					case *ssa.Call:
						if b, isB := y.Call.Value.(*ssa.Builtin); isB && len(y.Call.Args) > 0 && y.Call.Args[0] == x {
							if b.Name() == "delete" || b.Name() == "close" || b.Name() == "clear" {
								out = append(out, FieldAccess{Instr: y, Struct: label, Field: fname, LockPath: lockPath, Write: true, Fresh: fresh, Kind: b.Name()})
								wrote = true
							}
						}
					case *ssa.IndexAddr:
						if y.X == x {
							for _, u3 := range Referrers(y) {
								if st, isSt := u3.(*ssa.Store); isSt && st.Addr == y {
									out = append(out, FieldAccess{Instr: st, Struct: label, Field: fname, LockPath: lockPath, Write: true, Fresh: fresh, Kind: "element store"})
									wrote = true
								}
							}
						}
					}
				}
				_ = wrote
				out = append(out, FieldAccess{Instr: x, Struct: label, Field: fname, LockPath: lockPath, Write: false, Fresh: fresh, Kind: "load"})
			default:
				// address escapes (passed to a call, e.g. &r.bus as receiver): treat as read
				if _, isDbg := u.(*ssa.DebugRef); isDbg {
					continue
				}
				out = append(out, FieldAccess{Instr: u, Struct: label, Field: fname, LockPath: lockPath, Write: false, Fresh: fresh, Kind: "address used"})
			}
		}
	})
	return out
}

// AccessPathType is a fallback label for anonymous struct types.
func AccessPathType(v ssa.Value) string {
	p := AccessPath(v)
	if i := strings.Index(p, "."); i >= 0 {
		return p[i+1:]
	}
	return p
}

// CallbackBody resolves a function value handed to an option such as resource.InterceptAfter to the function
// whose body does the work, together with its last two parameters (old, new): a function literal, a method value
// (`m.stampStartTime`: go/ssa wraps it in a synthetic bound-method closure), or a plain function.
func CallbackBody(v ssa.Value) (fn *ssa.Function, old, new *ssa.Parameter) {
	var f *ssa.Function
	switch x := v.(type) {
	case *ssa.MakeClosure:
		f, _ = x.Fn.(*ssa.Function)
	case *ssa.Function:
		f = x
	case *ssa.ChangeType:
		return CallbackBody(x.X)
	}
	if f == nil {
		return nil, nil, nil
	}
	if strings.HasPrefix(f.Synthetic, "bound method wrapper") {
		// the wrapper's only call is the method itself
		var target *ssa.Function
		Instrs(f, func(in ssa.Instruction) {
			if call, ok := in.(ssa.CallInstruction); ok {
				if t := call.Common().StaticCallee(); t != nil {
					target = t
				}
			}
		})
		if target != nil {
			f = target
		}
	}
	if n := len(f.Params); n >= 2 {
		return f, f.Params[n-2], f.Params[n-1]
	}
	return f, nil, nil
}

// IsFresh reports whether v is (derived by field addressing from) an allocation made in the same function.
func IsFresh(v ssa.Value) bool { return isFresh(v) }
