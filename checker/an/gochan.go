package an

import (
	"go/token"
	"go/types"

	"golang.org/x/tools/go/ssa"
)

// E6 – goroutine / channel / cancellation helpers.

// SendSite is one channel send (plain or inside a select).
type SendSite struct {
	Instr  ssa.Instruction // *ssa.Send or *ssa.Select
	Chan   ssa.Value
	Val    ssa.Value
	Select *ssa.Select // nil for a plain (unconditional, blocking) send
	Index  int         // state index inside the select
	// Via is set when the send happens inside a local closure or a same-package helper the rules have never
	// seen: Instr is then the CALL in the analysed function, Val the call's argument that is sent, and
	// Chan/Select belong to the callee's body.
	Via *ssa.Function
}

// RecvSite is one channel receive.
type RecvSite struct {
	Instr   ssa.Instruction // *ssa.UnOp(ARROW) or *ssa.Select
	Chan    ssa.Value
	Select  *ssa.Select
	Index   int
	CommaOk bool
}

// sendCallee returns the function whose body stands for the call: a closure defined in the caller and called
// directly, or a same-package helper that is not on the reference list (known_funcs.txt).
func sendCallee(call *ssa.Call) *ssa.Function { return TransparentCallee(call) }

// TransparentCallee returns the function whose body the analyses look through at this call: a closure defined
// in the caller and called directly, or a same-package helper that is not on the reference list
// (known_funcs.txt), i.e. one the rules have never seen. nil for every other call.
func TransparentCallee(call *ssa.Call) *ssa.Function {
	return transparentCalleeOf(&call.Call, call.Parent())
}

// transparentCalleeOf works on any call site (call, go, defer).
func transparentCalleeOf(cc *ssa.CallCommon, parent *ssa.Function) *ssa.Function {
	if mc, ok := cc.Value.(*ssa.MakeClosure); ok {
		if f, ok := mc.Fn.(*ssa.Function); ok {
			return f
		}
	}
	// a function literal without captured variables, called directly
	if f, ok := cc.Value.(*ssa.Function); ok && f.Parent() != nil {
		return f
	}
	// a closure kept in a local variable
	if !cc.IsInvoke() {
		if _, isFn := cc.Value.(*ssa.Function); !isFn {
			for _, src := range Sources(cc.Value) {
				if mc, ok := src.(*ssa.MakeClosure); ok {
					if f, ok := mc.Fn.(*ssa.Function); ok {
						return f
					}
				}
			}
		}
	}
	if h := cc.StaticCallee(); h != nil && len(h.Blocks) > 0 && parent != nil && h.Parent() == nil {
		// an instance of a generic helper (`sendOrDone[T]`) is judged by the generic function it comes from
		o := h
		if g := h.Origin(); g != nil {
			o = g
		}
		pp := parent
		for pp.Parent() != nil {
			pp = pp.Parent()
		}
		if g := pp.Origin(); g != nil {
			pp = g
		}
		if o.Package() != nil && o.Package() == pp.Package() && !KnownFunc(FuncQName(o)) {
			return h
		}
	}
	return nil
}

// IsSendSite reports whether the instruction sends on a channel: a Send, a Select with a send case, or a call
// that stands for one (see SendSite.Via).
func IsSendSite(in ssa.Instruction) bool {
	switch x := in.(type) {
	case *ssa.Send:
		return true
	case *ssa.Select:
		for _, st := range x.States {
			if st.Dir == types.SendOnly {
				return true
			}
		}
	case *ssa.Call:
		if f := sendCallee(x); f != nil {
			return len(directSends(f)) > 0
		}
	}
	return false
}

// Sends lists all sends in fn: its own, and those made on its behalf by local closures it calls or by
// helpers the rules have never seen (one level).
func Sends(fn *ssa.Function) []SendSite {
	out := directSends(fn)
	Instrs(fn, func(in ssa.Instruction) {
		call, ok := in.(*ssa.Call)
		if !ok {
			return
		}
		f := sendCallee(call)
		if f == nil || f == fn {
			return
		}
		for _, inner := range directSends(f) {
			site := SendSite{Instr: call, Chan: inner.Chan, Select: inner.Select, Index: inner.Index, Via: f, Val: inner.Val}
			// which argument of THIS call is the value sent (the callee's parameter, looked at without
			// resolving it to all call sites)
			seenV := map[ssa.Value]bool{}
			var find func(v ssa.Value)
			find = func(v ssa.Value) {
				if v == nil || seenV[v] {
					return
				}
				seenV[v] = true
				switch x := v.(type) {
				case *ssa.Parameter:
					for pi, p := range f.Params {
						if x == p && pi < len(call.Call.Args) {
							site.Val = call.Call.Args[pi]
						}
					}
				case *ssa.Phi:
					for _, e := range x.Edges {
						find(e)
					}
				case *ssa.MakeInterface:
					find(x.X)
				case *ssa.ChangeInterface:
					find(x.X)
				case *ssa.ChangeType:
					find(x.X)
				case *ssa.Convert:
					find(x.X)
				case *ssa.UnOp:
					if x.Op == token.MUL {
						if cell := CellOf(x.X); cell != nil {
							for _, st := range StoresTo(cell) {
								find(st.Val)
							}
						}
					}
				}
			}
			find(inner.Val)
			out = append(out, site)
		}
	})
	return out
}

func directSends(fn *ssa.Function) []SendSite {
	var out []SendSite
	Instrs(fn, func(in ssa.Instruction) {
		switch x := in.(type) {
		case *ssa.Send:
			out = append(out, SendSite{Instr: x, Chan: x.Chan, Val: x.X})
		case *ssa.Select:
			for i, st := range x.States {
				if st.Dir == types.SendOnly {
					out = append(out, SendSite{Instr: x, Chan: st.Chan, Val: st.Send, Select: x, Index: i})
				}
			}
		}
	})
	return out
}

// Recvs lists all receives in fn.
func Recvs(fn *ssa.Function) []RecvSite {
	var out []RecvSite
	Instrs(fn, func(in ssa.Instruction) {
		switch x := in.(type) {
		case *ssa.UnOp:
			if x.Op == token.ARROW {
				out = append(out, RecvSite{Instr: x, Chan: x.X, CommaOk: x.CommaOk})
			}
		case *ssa.Select:
			for i, st := range x.States {
				if st.Dir == types.RecvOnly {
					out = append(out, RecvSite{Instr: x, Chan: st.Chan, Select: x, Index: i})
				}
			}
		}
	})
	return out
}

// CtxDone: if v is the channel returned by ctx.Done() return the context
// value it was called on.
func CtxDone(v ssa.Value) (ssa.Value, bool) {
	call, ok := v.(*ssa.Call)
	if !ok {
		return nil, false
	}
	cc := call.Common()
	if cc.IsInvoke() && cc.Method.Name() == "Done" && NamedTypeName(cc.Value.Type()) == "context.Context" {
		return cc.Value, true
	}
	return nil, false
}

// SelectHasCtxDone reports whether the select has a receive on some
// ctx.Done() and returns the contexts.
func SelectHasCtxDone(sel *ssa.Select) []ssa.Value {
	var out []ssa.Value
	for _, st := range sel.States {
		if st.Dir != types.RecvOnly {
			continue
		}
		if ctx, ok := CtxDone(st.Chan); ok {
			out = append(out, ctx)
		}
	}
	return out
}

// ChanRoots resolves a channel value to its origins (MakeChan, parameter,
// call result, field load…), looking through local cells and conversions.
func ChanRoots(v ssa.Value) []ssa.Value {
	return Sources(v)
}

// SameChan reports whether two channel values have a common origin.
func SameChan(a, b ssa.Value) bool {
	ra, rb := ChanRoots(a), ChanRoots(b)
	for _, x := range ra {
		for _, y := range rb {
			if x == y {
				return true
			}
			// same field of the same object
			if p, q := AccessPath(x), AccessPath(y); p != "" && p == q {
				return true
			}
		}
	}
	return false
}

// DeferredCloses lists channels closed by a `defer close(ch)` in fn and
// whether the defer is in the entry block (executed on every exit).
func DeferredCloses(fn *ssa.Function) (chans []ssa.Value, inEntry []bool) {
	Instrs(fn, func(in ssa.Instruction) {
		d, ok := in.(*ssa.Defer)
		if !ok {
			return
		}
		if b, isB := d.Call.Value.(*ssa.Builtin); isB && b.Name() == "close" && len(d.Call.Args) == 1 {
			chans = append(chans, d.Call.Args[0])
			// "entry" = dominates every return
			dom := true
			for _, r := range Returns(fn) {
				if r.Block() == fn.Recover {
					continue
				}
				if !Dominates(d, r) {
					dom = false
				}
			}
			inEntry = append(inEntry, dom)
		}
	})
	return
}

// GoStmts lists the go statements of fn with their target function.
func GoStmts(fn *ssa.Function) []*ssa.Go {
	var out []*ssa.Go
	Instrs(fn, func(in ssa.Instruction) {
		if g, ok := in.(*ssa.Go); ok {
			out = append(out, g)
		}
	})
	return out
}

// GoTarget returns the function started by a go statement (closure or static), or nil.
func GoTarget(g *ssa.Go) *ssa.Function { return goTarget(g) }

// MakeChanCap returns the constant capacity of a make(chan) (0 for
// unbuffered) and whether v is a MakeChan with constant size.
func MakeChanCap(v ssa.Value) (int64, bool) {
	mc, ok := v.(*ssa.MakeChan)
	if !ok {
		return 0, false
	}
	return ConstInt(mc.Size)
}

// RecvLoop is a loop that takes its items from a channel, however it is spelled (`for x := range ch`,
// `for { x, ok := <-ch; if !ok { … } }`, a select-free receive at the top of a `for`).
type RecvLoop struct {
	Header *ssa.BasicBlock // the block holding the receive; it is on a cycle of the CFG
	Recv   *ssa.UnOp
	Body   *ssa.BasicBlock // the successor of Header from which Header is reached again (the iteration)
}

func blockReaches(from, to *ssa.BasicBlock) bool {
	seen := map[*ssa.BasicBlock]bool{}
	var walk func(b *ssa.BasicBlock) bool
	walk = func(b *ssa.BasicBlock) bool {
		if b == to {
			return true
		}
		if seen[b] {
			return false
		}
		seen[b] = true
		for _, s := range b.Succs {
			if walk(s) {
				return true
			}
		}
		return false
	}
	return walk(from)
}

// RecvLoops lists the channel-receiving loops of fn in block order.
func RecvLoops(fn *ssa.Function) []RecvLoop {
	var out []RecvLoop
	for _, b := range fn.Blocks {
		var recv *ssa.UnOp
		for _, in := range b.Instrs {
			if u, ok := in.(*ssa.UnOp); ok && u.Op == token.ARROW {
				recv = u
			}
		}
		if recv == nil {
			continue
		}
		onCycle := false
		var body *ssa.BasicBlock
		for _, s := range b.Succs {
			if blockReaches(s, b) {
				onCycle = true
				if body == nil {
					body = s
				}
			}
		}
		if !onCycle {
			continue
		}
		// when the receive's ok flag decides between iterating and leaving, the body is the iterating side
		// even if both sides can come back (nested loops)
		if len(b.Succs) == 2 && blockReaches(b.Succs[0], b) && blockReaches(b.Succs[1], b) {
			body = b.Succs[0]
		}
		out = append(out, RecvLoop{Header: b, Recv: recv, Body: body})
	}
	return out
}
