package an

import (
	"sort"
	"strings"

	"golang.org/x/tools/go/ssa"
)

// LockMode: 0 none, 1 read, 2 write.
type LockMode int

const (
	NoLock LockMode = 0
	RLock  LockMode = 1
	WLock  LockMode = 2
)

// LockSet maps a lock's access path ("c.mu") to the mode it is held in.
type LockSet map[string]LockMode

func (s LockSet) clone() LockSet {
	o := LockSet{}
	for k, v := range s {
		o[k] = v
	}
	return o
}

func (s LockSet) String() string {
	var ks []string
	for k, v := range s {
		m := "R"
		if v == WLock {
			m = "W"
		}
		ks = append(ks, k+":"+m)
	}
	sort.Strings(ks)
	return "{" + strings.Join(ks, ",") + "}"
}

func meet(a, b LockSet) LockSet {
	o := LockSet{}
	for k, va := range a {
		if vb, ok := b[k]; ok {
			if vb < va {
				va = vb
			}
			o[k] = va
		}
	}
	return o
}

func equalLS(a, b LockSet) bool {
	if len(a) != len(b) {
		return false
	}
	for k, v := range a {
		if b[k] != v {
			return false
		}
	}
	return true
}

// lockOp classifies a call as a mutex operation and returns the lock path.
func lockOp(in ssa.Instruction) (path string, op string, ok bool) {
	call, isCall := in.(ssa.CallInstruction)
	if !isCall {
		return "", "", false
	}
	name := CalleeName(call)
	switch name {
	case "(*sync.RWMutex).Lock", "(*sync.Mutex).Lock":
		op = "Lock"
	case "(*sync.RWMutex).RLock":
		op = "RLock"
	case "(*sync.RWMutex).Unlock", "(*sync.Mutex).Unlock":
		op = "Unlock"
	case "(*sync.RWMutex).RUnlock":
		op = "RUnlock"
	default:
		return "", "", false
	}
	args := call.Common().Args
	if len(args) == 0 {
		return "", "", false
	}
	p := AccessPath(args[0])
	if p == "" {
		p = "?" + args[0].Name()
	}
	return p, op, true
}

// LockInfo is the result of the intra-procedural lock-set analysis of one
// function: the set of locks that MUST be held immediately before each
// instruction.
type LockInfo struct {
	Fn     *ssa.Function
	Before map[ssa.Instruction]LockSet
	// Exit is the meet of the lock sets at all returns (deferred unlocks not applied).
	Exit LockSet
}

// Locks runs the forward must-analysis on fn with the given entry set.
// A deferred Unlock/RUnlock keeps the lock until function exit.
func Locks(fn *ssa.Function, entry LockSet) *LockInfo {
	li := &LockInfo{Fn: fn, Before: map[ssa.Instruction]LockSet{}}
	if len(fn.Blocks) == 0 {
		return li
	}
	if entry == nil {
		entry = LockSet{}
	}
	in := map[*ssa.BasicBlock]LockSet{}
	out := map[*ssa.BasicBlock]LockSet{}
	transfer := func(b *ssa.BasicBlock, s LockSet, record bool) LockSet {
		s = s.clone()
		for _, instr := range b.Instrs {
			if record {
				li.Before[instr] = s.clone()
			}
			if _, isDefer := instr.(*ssa.Defer); isDefer {
				continue // deferred unlock: lock stays held until exit
			}
			if _, isGo := instr.(*ssa.Go); isGo {
				continue
			}
			p, op, ok := lockOp(instr)
			if !ok {
				continue
			}
			switch op {
			case "Lock":
				s[p] = WLock
			case "RLock":
				if s[p] < RLock {
					s[p] = RLock
				}
			case "Unlock", "RUnlock":
				delete(s, p)
			}
		}
		return s
	}
	// optimistic iteration: blocks without a computed out are TOP and skipped in the meet
	for changed := true; changed; {
		changed = false
		for _, b := range fn.Blocks {
			var ni LockSet
			if b == fn.Blocks[0] {
				ni = entry.clone()
			} else {
				for _, p := range b.Preds {
					po, ok := out[p]
					if !ok {
						continue
					}
					if ni == nil {
						ni = po.clone()
					} else {
						ni = meet(ni, po)
					}
				}
				if ni == nil {
					continue // no predecessor processed yet (or unreachable)
				}
			}
			o := transfer(b, ni, false)
			if prev, ok := out[b]; !ok || !equalLS(prev, o) || !equalLS(in[b], ni) {
				changed = true
			}
			in[b] = ni
			out[b] = o
		}
	}
	first := true
	for _, b := range fn.Blocks {
		s, ok := in[b]
		if !ok {
			continue // unreachable
		}
		transfer(b, s, true)
		if len(b.Instrs) > 0 {
			if _, isRet := b.Instrs[len(b.Instrs)-1].(*ssa.Return); isRet {
				if first {
					li.Exit = out[b].clone()
					first = false
				} else {
					li.Exit = meet(li.Exit, out[b])
				}
			}
		}
	}
	if li.Exit == nil {
		li.Exit = LockSet{}
	}
	return li
}

// At returns the lock set held immediately before instr.
func (li *LockInfo) At(instr ssa.Instruction) LockSet {
	if s, ok := li.Before[instr]; ok {
		return s
	}
	return LockSet{}
}

// TranslateToCallee maps a caller lock set to the callee's parameter names
// at a given call: a lock path with prefix AccessPath(arg_i) is renamed to
// the callee's i-th parameter.
func TranslateToCallee(call ssa.CallInstruction, callee *ssa.Function, held LockSet) LockSet {
	out := LockSet{}
	args := call.Common().Args
	for path, mode := range held {
		for i, a := range args {
			if i >= len(callee.Params) {
				break
			}
			ap := AccessPath(a)
			if ap == "" {
				continue
			}
			if path == ap {
				out[callee.Params[i].Name()] = mode
			} else if strings.HasPrefix(path, ap+".") {
				out[callee.Params[i].Name()+path[len(ap):]] = mode
			}
		}
		// closures see captured variables under their own names
		if mc, ok := call.Common().Value.(*ssa.MakeClosure); ok {
			_ = mc
			out[path] = mode
		}
	}
	return out
}

// TranslateToCaller maps a callee-relative lock set (rooted at callee
// parameters) to caller names at the given call.
func TranslateToCaller(call ssa.CallInstruction, callee *ssa.Function, held LockSet) LockSet {
	out := LockSet{}
	args := call.Common().Args
	for path, mode := range held {
		for i, prm := range callee.Params {
			if i >= len(args) {
				break
			}
			pn := prm.Name()
			ap := AccessPath(args[i])
			if ap == "" {
				continue
			}
			if path == pn {
				out[ap] = mode
			} else if strings.HasPrefix(path, pn+".") {
				out[ap+path[len(pn):]] = mode
			}
		}
	}
	return out
}

// FuncParamCallLocks analyses callee and returns, for its function-valued
// parameter #idx, the meet of the lock sets held at every site where the
// callee invokes that parameter (callee-relative names), and the number of
// such sites.
func FuncParamCallLocks(callee *ssa.Function, idx int) (LockSet, []ssa.CallInstruction, *LockInfo) {
	li := Locks(callee, nil)
	var res LockSet
	var sites []ssa.CallInstruction
	if idx >= len(callee.Params) {
		return LockSet{}, nil, li
	}
	prm := callee.Params[idx]
	Instrs(callee, func(in ssa.Instruction) {
		call, ok := in.(ssa.CallInstruction)
		if !ok {
			return
		}
		if call.Common().Value != prm {
			return
		}
		sites = append(sites, call)
		if res == nil {
			res = li.At(in).clone()
		} else {
			res = meet(res, li.At(in))
		}
	})
	if res == nil {
		res = LockSet{}
	}
	return res, sites, li
}

// LocksFrom runs the lock-set analysis path-sensitively with respect to a
// start instruction: only paths that begin right after `start` (with the lock
// set `init`) are considered, and they end when they come back to `start`.
// The result maps every instruction reachable from start to the set of locks
// held on ALL such paths before it.
func LocksFrom(start ssa.Instruction, init LockSet) map[ssa.Instruction]LockSet {
	res := map[ssa.Instruction]LockSet{}
	fn := start.Parent()
	apply := func(s LockSet, instr ssa.Instruction) LockSet {
		if _, isDefer := instr.(*ssa.Defer); isDefer {
			return s
		}
		if _, isGo := instr.(*ssa.Go); isGo {
			return s
		}
		p, op, ok := lockOp(instr)
		if !ok {
			return s
		}
		s = s.clone()
		switch op {
		case "Lock":
			s[p] = WLock
		case "RLock":
			if s[p] < RLock {
				s[p] = RLock
			}
		case "Unlock", "RUnlock":
			delete(s, p)
		}
		return s
	}
	// state at block entry (for blocks entered from their top)
	in := map[*ssa.BasicBlock]LockSet{}
	type job struct {
		b *ssa.BasicBlock
		i int
		s LockSet
	}
	var work []job
	work = append(work, job{start.Block(), Index(start) + 1, init.clone()})
	for len(work) > 0 {
		j := work[0]
		work = work[1:]
		s := j.s
		stopped := false
		for i := j.i; i < len(j.b.Instrs); i++ {
			instr := j.b.Instrs[i]
			if instr == start {
				stopped = true
				break
			}
			if cur, ok := res[instr]; ok {
				res[instr] = meet(cur, s)
			} else {
				res[instr] = s.clone()
			}
			s = apply(res[instr], instr)
		}
		if stopped {
			continue
		}
		for _, succ := range j.b.Succs {
			cur, ok := in[succ]
			var ni LockSet
			if ok {
				ni = meet(cur, s)
				if equalLS(ni, cur) {
					continue
				}
			} else {
				ni = s.clone()
			}
			in[succ] = ni
			work = append(work, job{succ, 0, ni})
		}
	}
	_ = fn
	return res
}

// HeldContinuously reports whether lock `path` is held (in at least `mode`)
// at a and at every instruction on every path from a to b (paths that return
// to a are cut there).
func HeldContinuously(li *LockInfo, path string, mode LockMode, a, b ssa.Instruction) bool {
	if a.Parent() != b.Parent() {
		return false
	}
	if li.At(a)[path] < mode {
		// the lock may be taken by a itself (e.g. a is the Lock call): use the state after a
		if p, op, ok := lockOp(a); !(ok && p == path && ((op == "Lock") || (op == "RLock" && mode <= RLock))) {
			return false
		}
	}
	init := li.At(a).clone()
	if p, op, ok := lockOp(a); ok {
		switch op {
		case "Lock":
			init[p] = WLock
		case "RLock":
			if init[p] < RLock {
				init[p] = RLock
			}
		case "Unlock", "RUnlock":
			delete(init, p)
		}
	}
	from := LocksFrom(a, init)
	if _, reach := from[b]; !reach {
		return false
	}
	for in, held := range from {
		if in != b {
			// only instructions from which b is still reachable without passing a matter
			t, _ := PathQuery{Target: func(x ssa.Instruction) bool { return x == b }, Avoid: func(x ssa.Instruction) bool { return x == a }}.From(a.Parent(), in)
			if t == nil {
				continue
			}
		}
		if held[path] < mode {
			return false
		}
	}
	return true
}

// IsLockOp reports whether in is a Lock/RLock/Unlock/RUnlock call on a sync mutex (deferred ones included).
func IsLockOp(in ssa.Instruction) bool {
	_, _, ok := lockOp(in)
	return ok
}

// InModule reports whether fn is a hand-written function of the analysed module.
func InModule(fn *ssa.Function) bool {
	if fn == nil || fn.Pkg == nil || fn.Pkg.Pkg == nil {
		if fn != nil && fn.Origin() != nil && fn.Origin() != fn {
			return InModule(fn.Origin())
		}
		return false
	}
	if !strings.HasPrefix(fn.Pkg.Pkg.Path(), ModulePath) {
		return false
	}
	f := fn.Prog.Fset.Position(fn.Pos()).Filename
	return !strings.HasSuffix(f, ".pb.go")
}

// LockOp classifies an instruction as a mutex operation: the lock's access path and Lock/RLock/Unlock/RUnlock.
func LockOp(in ssa.Instruction) (path string, op string, ok bool) { return lockOp(in) }
