package an

import (
	"fmt"
	"go/token"
	"go/types"
	"sort"
	"strings"

	"golang.org/x/tools/go/ssa"
)

// E2 – published-message immutability.
//
// A forward taint analysis over SSA values with two marks:
//   Self – the value is (reachable from) a published object: writing through it is a violation;
//   Elem – the value is a fresh container (slice, struct, array) that holds references to
//          published objects: writing the container's own slots is fine, values loaded from
//          it are Self, and handing it to a *deep* mutator is a violation.
// Sanitiser: proto.Clone and fresh allocations. Callees in the module are
// summarised bottom-up (which parameters they write through, which results
// alias which parameters).

type Taint uint8

const (
	TSelf Taint = 1
	TElem Taint = 2
)

// MutFinding is one write through a published value.
type MutFinding struct {
	Instr ssa.Instruction
	Kind  string // store, map update, copy, append-overwrite, sort, mutator call, callee writes param
	What  string // stable description of the written thing (no SSA temporaries, no positions)
	Deep  bool   // the write reaches everything below the written object
}

// Mutators outside the module: callee name -> indices of the arguments that are written.
// deep = the write reaches everything below the argument (so Elem containers count too).
type extMutator struct {
	args []int
	deep bool
	why  string
}

var extMutators = map[string]extMutator{
	"google.golang.org/protobuf/proto.Merge":                      {[]int{0}, true, "proto.Merge writes dst"},
	"google.golang.org/protobuf/proto.Reset":                      {[]int{0}, true, "proto.Reset clears the message"},
	"github.com/mennanov/fmutils.Filter":                          {[]int{0}, true, "fmutils.Filter clears fields in place"},
	"github.com/mennanov/fmutils.Prune":                           {[]int{0}, true, "fmutils.Prune clears fields in place"},
	"github.com/mennanov/fmutils.Overwrite":                       {[]int{1}, true, "fmutils.Overwrite writes dest"},
	"(github.com/mennanov/fmutils.NestedMask).Filter":             {[]int{1}, true, "NestedMask.Filter clears fields in place"},
	"(github.com/mennanov/fmutils.NestedMask).Prune":              {[]int{1}, true, "NestedMask.Prune clears fields in place"},
	"(github.com/mennanov/fmutils.NestedMask).Overwrite":          {[]int{2}, true, "NestedMask.Overwrite writes dest"},
	"google.golang.org/protobuf/proto.UnmarshalOptions.Unmarshal": {[]int{2}, true, "Unmarshal writes the message"},
	"google.golang.org/protobuf/proto.Unmarshal":                  {[]int{1}, true, "Unmarshal writes the message"},
	"sort.Slice":            {[]int{0}, false, "sort.Slice reorders the slice in place"},
	"sort.SliceStable":      {[]int{0}, false, "sort.SliceStable reorders the slice in place"},
	"sort.Sort":             {[]int{0}, false, "sort.Sort reorders in place"},
	"sort.Stable":           {[]int{0}, false, "sort.Stable reorders in place"},
	"sort.Strings":          {[]int{0}, false, "sort.Strings reorders in place"},
	"slices.Sort":           {[]int{0}, false, "slices.Sort reorders in place"},
	"slices.SortFunc":       {[]int{0}, false, "slices.SortFunc reorders in place"},
	"slices.SortStableFunc": {[]int{0}, false, "slices.SortStableFunc reorders in place"},
	"slices.Reverse":        {[]int{0}, false, "slices.Reverse reorders in place"},
}

// invoke mutators: interface method name on protoreflect.Message / List / Map handles.
var reflectMutators = map[string]bool{"Set": true, "Clear": true, "Mutable": true, "NewField": false, "SetUnknown": true,
	"Append": true, "Truncate": true, "AppendMutable": true, "WhichOneof": false}

// externals whose result aliases an argument (index).
var extAlias = map[string]int{
	"google.golang.org/protobuf/proto.MessageV1": 0,
	"google.golang.org/protobuf/proto.MessageV2": 0,
}

// externals whose result is a fresh container of the argument's elements.
var extElems = map[string]int{
	"golang.org/x/exp/maps.Values": 0, "maps.Values": 0, "golang.org/x/exp/maps.Clone": 0, "maps.Clone": 0,
	"golang.org/x/exp/slices.Clone": 0, "slices.Clone": 0,
}

// MutSummary describes a module function.
type MutSummary struct {
	Writes     []bool   // parameter i is written through
	Deep       []bool   // ... by a deep mutator (everything below the argument is written)
	WritesWhat []string // first finding for parameter i
	// RetAlias[r] = set of parameter indices result r may alias / be reachable from
	RetAlias []map[int]bool
}

// MutWorld holds the configuration and memoised summaries.
type MutWorld struct {
	P *Program
	// Source reports whether a value is published at its definition.
	Source func(v ssa.Value) bool
	// ParamSource marks parameters of particular functions as published.
	ParamSource map[*ssa.Parameter]bool

	sums     map[*ssa.Function]*MutSummary
	progress map[*ssa.Function]bool
	retPub   map[*ssa.Function][]Taint
	retBusy  map[*ssa.Function]bool
}

func NewMutWorld(p *Program) *MutWorld {
	return &MutWorld{P: p, ParamSource: map[*ssa.Parameter]bool{}, sums: map[*ssa.Function]*MutSummary{}, progress: map[*ssa.Function]bool{}}
}

func pointerLike(t types.Type) bool {
	switch t.Underlying().(type) {
	case *types.Pointer, *types.Slice, *types.Map, *types.Interface, *types.Chan, *types.Signature:
		return true
	case *types.Struct, *types.Array:
		return true // may contain references
	}
	return false
}

// Summary returns (computing on demand) the summary of a module function.
func (w *MutWorld) Summary(fn *ssa.Function) *MutSummary {
	if s, ok := w.sums[fn]; ok {
		return s
	}
	if w.progress[fn] || len(fn.Blocks) == 0 {
		return nil
	}
	w.progress[fn] = true
	defer delete(w.progress, fn)
	s := &MutSummary{Writes: make([]bool, len(fn.Params)), Deep: make([]bool, len(fn.Params)), WritesWhat: make([]string, len(fn.Params))}
	nres := fn.Signature.Results().Len()
	s.RetAlias = make([]map[int]bool, nres)
	for r := range s.RetAlias {
		s.RetAlias[r] = map[int]bool{}
	}
	for i, p := range fn.Params {
		if !pointerLike(p.Type()) {
			continue
		}
		res := w.run(fn, map[ssa.Value]Taint{p: TSelf}, false)
		if len(res.findings) > 0 {
			s.Writes[i] = true
			f := res.findings[0]
			s.WritesWhat[i] = fmt.Sprintf("%s %s", f.Kind, f.What)
			for _, ff := range res.findings {
				if ff.Deep {
					s.Deep[i] = true
				}
			}
		}
		for r, t := range res.ret {
			if t != 0 && r < nres {
				s.RetAlias[r][i] = true
			}
		}
	}
	w.sums[fn] = s
	return s
}

type mutResult struct {
	findings []MutFinding
	ret      []Taint
	taint    map[ssa.Value]Taint
}

// Analyse runs the published-mode analysis on fn: sources are w.Source,
// w.ParamSource and results of module callees that alias published arguments.
func (w *MutWorld) Analyse(fn *ssa.Function) ([]MutFinding, map[ssa.Value]Taint) {
	seed := map[ssa.Value]Taint{}
	for _, p := range fn.Params {
		if w.ParamSource[p] {
			seed[p] = TSelf
		}
	}
	res := w.run(fn, seed, true)
	return res.findings, res.taint
}

// AnalyseParams runs the parameter-mutation mode: the given parameters are the only sources.
func (w *MutWorld) AnalyseParams(fn *ssa.Function, params ...*ssa.Parameter) []MutFinding {
	seed := map[ssa.Value]Taint{}
	for _, p := range params {
		seed[p] = TSelf
	}
	return w.run(fn, seed, false).findings
}

func (w *MutWorld) run(fn *ssa.Function, seed map[ssa.Value]Taint, useSources bool) *mutResult {
	t := map[ssa.Value]Taint{}
	for k, v := range seed {
		t[k] = v
	}
	get := func(v ssa.Value) Taint {
		if v == nil {
			return 0
		}
		return t[v]
	}
	changed := true
	// containers are identified by access path as well as by SSA value: go/ssa does not
	// merge repeated loads of the same variable / field, so `x.f = published; use(x.f)`
	// involves two different load instructions of x
	pathTaint := map[string]Taint{}
	pathOf := map[ssa.Value]string{}
	apath := func(v ssa.Value) string {
		if p, ok := pathOf[v]; ok {
			return p
		}
		p := AccessPath(v)
		if p == "" {
			p = syntheticPath(v)
		}
		pathOf[v] = p
		return p
	}
	set := func(v ssa.Value, x Taint) {
		if x == 0 || v == nil {
			return
		}
		if t[v]|x != t[v] {
			t[v] |= x
			changed = true
		}
	}
	// what was stored at a given access path of a fresh container (to keep nesting levels apart:
	// a fresh message holding a fresh slice of published messages yields the fresh slice on load)
	storedAt := map[string]Taint{}
	setElemRoot := func(root ssa.Value) {
		set(root, TElem)
		if _, isKey := root.(extractKey); isKey {
			return
		}
		if p := apath(root); p != "" && pathTaint[p]&TElem == 0 {
			pathTaint[p] |= TElem
			changed = true
		}
	}
	// root of an address/value: the object a store through addr lands in
	var rootOf func(v ssa.Value) ssa.Value
	rootOf = func(v ssa.Value) ssa.Value {
		for depth := 0; depth < 12; depth++ {
			switch x := v.(type) {
			case *ssa.FieldAddr:
				v = x.X
			case *ssa.IndexAddr:
				v = x.X
			case *ssa.Slice:
				v = x.X
			default:
				return v
			}
		}
		return v
	}
	isFreshCall := func(call *ssa.Call) bool {
		n := CalleeName(call)
		return n == "google.golang.org/protobuf/proto.Clone" || strings.HasSuffix(n, ".ProtoReflect().New")
	}
	// captured variables (FreeVars) of closures: taint flows through the cell's stores
	cellTaint := func(addr ssa.Value) Taint {
		var x Taint
		if cell := CellOf(addr); cell != nil {
			for _, st := range StoresTo(cell) {
				if st.Parent() == fn {
					x |= get(st.Val)
				}
			}
		}
		return x
	}
	reach := map[*ssa.UnOp][]*ssa.Store{}
	for iter := 0; changed && iter < 50; iter++ {
		changed = false
		for _, b := range fn.Blocks {
			for _, in := range b.Instrs {
				v, isVal := in.(ssa.Value)
				if isVal && useSources && w.Source != nil && w.Source(v) {
					set(v, TSelf)
				}
				if isVal && len(pathTaint) > 0 {
					// only values (loads), never addresses, are identified by access path
					if u, isLoad := in.(*ssa.UnOp); isLoad && u.Op == token.MUL {
						if p := apath(v); p != "" {
							set(v, pathTaint[p])
						}
					}
				}
				switch x := in.(type) {
				case *ssa.Phi:
					for _, e := range x.Edges {
						set(x, get(e))
					}
				case *ssa.ChangeType:
					set(x, get(x.X))
				case *ssa.ChangeInterface:
					set(x, get(x.X))
				case *ssa.MakeInterface:
					set(x, get(x.X))
				case *ssa.Convert:
					set(x, get(x.X))
				case *ssa.TypeAssert:
					set(x, get(x.X))
				case *ssa.Extract:
					set(x, get(x.Tuple)&^0) // tuple-level taint (calls set per-result below)
					if tt, ok := t[extractKey{x.Tuple, x.Index}]; ok {
						set(x, tt)
					}
				case *ssa.FieldAddr:
					set(x, get(x.X))
				case *ssa.IndexAddr:
					set(x, get(x.X))
				case *ssa.Field:
					if get(x.X) != 0 && pointerLike(x.Type()) {
						set(x, TSelf)
					}
				case *ssa.Index:
					if get(x.X) != 0 && pointerLike(x.Type()) {
						set(x, TSelf)
					}
				case *ssa.Slice:
					set(x, get(x.X))
				case *ssa.Lookup:
					if get(x.X) != 0 {
						set(x, TSelf)
					}
				case *ssa.Range:
					set(x, get(x.X))
				case *ssa.Next:
					if get(x.Iter) != 0 {
						set(x, TSelf)
					}
				case *ssa.UnOp:
					if x.Op == token.MUL {
						a := get(x.X)
						if a != 0 && pointerLike(x.Type()) {
							// loading a reference out of a published object or out of a container of published refs
							if st, known := storedAt[apath(x)]; known && a&TSelf == 0 && apath(x) != "" {
								set(x, st)
							} else {
								set(x, TSelf)
							}
						}
						// local variable cell: flow-sensitive reaching stores inside this function,
						// plus whatever closures store into it
						if al, isAlloc := x.X.(*ssa.Alloc); isAlloc {
							rs, cached := reach[x]
							if !cached {
								rs, _ = ReachingStores(x)
								for _, st := range StoresTo(&Cell{al}) {
									if st.Parent() != fn {
										rs = append(rs, st)
									}
								}
								reach[x] = rs
							}
							for _, st := range rs {
								if st.Parent() == fn {
									set(x, get(st.Val))
								} else {
									set(x, TSelf&0) // stores made by closures are analysed in the closure itself
								}
							}
						}
						if _, isFV := x.X.(*ssa.FreeVar); isFV {
							set(x, cellTaint(x.X))
						}
					} else if x.Op == token.ARROW {
						// receive: elements of a channel of published things are handled by Source (typed)
					}
				case *ssa.Store:
					// storing a published reference into a fresh object marks that object as a container
					if vt := get(x.Val); vt != 0 {
						if p := apath(x.Addr); p != "" && storedAt[p]|vt != storedAt[p] {
							storedAt[p] |= vt
							changed = true
						}
						root := rootOf(x.Addr)
						if get(root)&TSelf == 0 {
							// a plain assignment to a local variable is not "storing into a container"
							_, isAlloc := root.(*ssa.Alloc)
							_, isFV := root.(*ssa.FreeVar)
							if !((isAlloc || isFV) && root == x.Addr) {
								setElemRoot(root)
								// the address itself yields published values on load
								set(x.Addr, TElem)
							}
						}
					}
				case *ssa.MapUpdate:
					if get(x.Value) != 0 && get(x.Map)&TSelf == 0 {
						setElemRoot(x.Map)
					}
				case *ssa.Call:
					// copy(dst, src) with published elements in src: whatever dst was loaded from holds them now
					// (the same as storing them one by one)
					if b, isB := x.Call.Value.(*ssa.Builtin); isB && b.Name() == "copy" && len(x.Call.Args) == 2 && get(x.Call.Args[1]) != 0 {
						if root := rootOf(x.Call.Args[0]); get(root)&TSelf == 0 {
							setElemRoot(root)
						}
					}
					w.callTaint(fn, x, get, set, isFreshCall)
				}
			}
		}
	}
	// collect findings
	res := &mutResult{taint: t}
	add := func(in ssa.Instruction, kind, what string) {
		deep := strings.HasPrefix(kind, "deep ")
		res.findings = append(res.findings, MutFinding{in, strings.TrimPrefix(kind, "deep "), what, deep})
	}
	for _, b := range fn.Blocks {
		for _, in := range b.Instrs {
			switch x := in.(type) {
			case *ssa.Store:
				if get(x.Addr)&TSelf != 0 {
					// a plain store to a local variable cell holding a published pointer is not a write through it
					if _, isAlloc := x.Addr.(*ssa.Alloc); isAlloc {
						continue
					}
					if _, isFV := x.Addr.(*ssa.FreeVar); isFV {
						continue
					}
					add(in, "store", describeAddr(x.Addr))
				}
			case *ssa.MapUpdate:
				if get(x.Map)&TSelf != 0 {
					add(in, "map update", describeAddr(x.Map))
				}
			case *ssa.Call:
				w.callSinks(fn, x, get, add)
			case *ssa.Return:
				for len(res.ret) < len(x.Results) {
					res.ret = append(res.ret, 0)
				}
				for i, r := range x.Results {
					res.ret[i] |= get(r)
				}
			}
		}
	}
	sort.SliceStable(res.findings, func(i, j int) bool { return res.findings[i].Instr.Pos() < res.findings[j].Instr.Pos() })
	return res
}

// extractKey lets per-result taints of calls live in the same map (as a synthetic key type).
type extractKey struct {
	tuple ssa.Value
	idx   int
}

func (extractKey) Name() string                  { return "" }
func (extractKey) String() string                { return "" }
func (extractKey) Type() types.Type              { return nil }
func (extractKey) Parent() *ssa.Function         { return nil }
func (extractKey) Referrers() *[]ssa.Instruction { return nil }
func (extractKey) Pos() token.Pos                { return token.NoPos }

func describeAddr(v ssa.Value) string {
	if p := AccessPath(v); p != "" {
		return p
	}
	switch x := v.(type) {
	case *ssa.FieldAddr:
		return describeAddr(x.X) + "." + fieldName(x.X.Type(), x.Field)
	case *ssa.IndexAddr:
		return describeAddr(x.X) + "[i]"
	case *ssa.UnOp:
		return describeAddr(x.X)
	case *ssa.TypeAssert:
		return describeAddr(x.X)
	case *ssa.Extract:
		return describeAddr(x.Tuple)
	case *ssa.Call:
		return "result of " + ModRel(CalleeName(x))
	case *ssa.Slice:
		return describeAddr(x.X) + "[:]"
	case *ssa.Phi:
		for _, e := range x.Edges {
			if d := describeAddr(e); d != "" && !strings.HasPrefix(d, "<") {
				return d
			}
		}
	case *ssa.Lookup:
		return describeAddr(x.X) + "[k]"
	case *ssa.MakeInterface:
		return describeAddr(x.X)
	case *ssa.ChangeType:
		return describeAddr(x.X)
	case *ssa.Alloc:
		return "local " + x.Comment
	}
	return "<" + strings.TrimPrefix(fmt.Sprintf("%T", v), "*ssa.") + " of type " + types.TypeString(v.Type(), func(p *types.Package) string { return p.Name() }) + ">"
}

// callTaint propagates taint through a call.
func (w *MutWorld) callTaint(fn *ssa.Function, call *ssa.Call, get func(ssa.Value) Taint, set func(ssa.Value, Taint), isFresh func(*ssa.Call) bool) {
	cc := call.Common()
	name := CalleeName(call)
	if isFresh(call) {
		return
	}
	if b, ok := cc.Value.(*ssa.Builtin); ok {
		switch b.Name() {
		case "append":
			if len(cc.Args) > 0 {
				set(call, get(cc.Args[0]))
			}
			if len(cc.Args) > 1 && get(cc.Args[1]) != 0 {
				set(call, TElem)
			}
		case "copy":
			if len(cc.Args) == 2 && get(cc.Args[1]) != 0 && get(cc.Args[0])&TSelf == 0 {
				set(cc.Args[0], TElem)
				// also the underlying array / cell the slice came from
				root := cc.Args[0]
				for depth := 0; depth < 6; depth++ {
					if s, ok := root.(*ssa.Slice); ok {
						root = s.X
						set(root, TElem)
						continue
					}
					break
				}
			}
		}
		return
	}
	// slices.Grow / slices.Clip hand back the SAME backing array (Grow whenever the capacity already suffices): the
	// result is as published as the argument
	if strings.HasPrefix(name, "slices.Grow") || strings.HasPrefix(name, "slices.Clip") {
		if len(cc.Args) > 0 {
			set(call, get(cc.Args[0]))
		}
		return
	}
	if cc.IsInvoke() {
		// reflection handles alias their message; getters on published interfaces yield published values
		m := cc.Method.Name()
		if get(cc.Value) != 0 {
			switch m {
			case "ProtoReflect", "Interface", "Message", "List", "Map", "Get", "Mutable":
				set(call, TSelf)
			}
		}
		// storing a published value into a reflected message / list / map makes that object (and the message it
		// reflects) a container of published parts: a later deep mutator on it writes those parts
		if m == "Set" || m == "Append" {
			stored := false
			for _, a := range cc.Args {
				if get(a) != 0 {
					stored = true
				}
			}
			if stored && get(cc.Value)&TSelf == 0 {
				v := cc.Value
				for depth := 0; depth < 6 && v != nil; depth++ {
					set(v, TElem)
					c2, ok := v.(*ssa.Call)
					if !ok || !c2.Call.IsInvoke() {
						break
					}
					switch c2.Call.Method.Name() {
					case "ProtoReflect", "Interface", "Message", "List", "Map", "Mutable", "New":
						v = c2.Call.Value
					default:
						v = nil
					}
				}
			}
		}
		return
	}
	if idx, ok := extAlias[name]; ok && idx < len(cc.Args) {
		set(call, get(cc.Args[idx]))
		return
	}
	if idx, ok := extElems[name]; ok && idx < len(cc.Args) {
		if get(cc.Args[idx]) != 0 {
			set(call, TElem)
		}
		return
	}
	callee := cc.StaticCallee()
	if callee == nil {
		return
	}
	// generated getters of protobuf messages: result is reachable from the receiver
	if callee.Signature.Recv() != nil && strings.HasPrefix(callee.Name(), "Get") && len(cc.Args) == 1 && get(cc.Args[0]) != 0 && pointerLike(call.Type()) {
		if w.P.AllFuncs[callee] || strings.HasSuffix(w.fileOfFunc(callee), ".pb.go") {
			set(call, TSelf)
			return
		}
	}
	if !w.P.AllFuncs[callee] {
		return
	}
	if callee == fn {
		return
	}
	// results that are published by the callee's own doing (it returns what it read from a resource)
	for r, tt := range w.retPublished(callee) {
		if tt == 0 {
			continue
		}
		if callee.Signature.Results().Len() == 1 {
			set(call, tt)
		} else {
			set(extractKey{call, r}, tt)
		}
	}
	sum := w.Summary(callee)
	if sum == nil {
		return
	}
	for r, aliases := range sum.RetAlias {
		for pi := range aliases {
			if pi < len(cc.Args) {
				if tt := get(cc.Args[pi]); tt != 0 {
					if len(sum.RetAlias) == 1 {
						set(call, tt)
					} else {
						k := extractKey{call, r}
						set(k, tt)
					}
				}
			}
		}
	}
}

// retPublished: per result, the taint it carries when the callee is analysed with the world's sources only
// (no published arguments): e.g. a finder that returns the stored message of a collection.
func (w *MutWorld) retPublished(callee *ssa.Function) []Taint {
	if w.retPub == nil {
		w.retPub = map[*ssa.Function][]Taint{}
		w.retBusy = map[*ssa.Function]bool{}
	}
	if r, ok := w.retPub[callee]; ok {
		return r
	}
	if w.retBusy[callee] || len(callee.Blocks) == 0 || len(w.retBusy) > 6 {
		return nil
	}
	w.retBusy[callee] = true
	res := w.run(callee, map[ssa.Value]Taint{}, true)
	delete(w.retBusy, callee)
	w.retPub[callee] = res.ret
	return res.ret
}

func (w *MutWorld) fileOfFunc(f *ssa.Function) string {
	if f.Pos().IsValid() {
		return w.P.Fset.Position(f.Pos()).Filename
	}
	if f.Pkg != nil {
		return f.Pkg.Pkg.Path()
	}
	return ""
}

// callSinks reports writes performed by a call.
func (w *MutWorld) callSinks(fn *ssa.Function, call *ssa.Call, get func(ssa.Value) Taint, add func(ssa.Instruction, string, string)) {
	cc := call.Common()
	name := CalleeName(call)
	if b, ok := cc.Value.(*ssa.Builtin); ok {
		switch b.Name() {
		case "copy":
			if len(cc.Args) == 2 && get(cc.Args[0])&TSelf != 0 {
				add(call, "copy into", describeAddr(cc.Args[0]))
			}
		case "append":
			// append(p[:k], …) overwrites the visible elements of p
			if len(cc.Args) > 0 && get(cc.Args[0])&TSelf != 0 {
				if sl, ok := cc.Args[0].(*ssa.Slice); ok && (sl.High != nil || sl.Low != nil) {
					add(call, "append onto a sub-slice of", describeAddr(sl.X))
				}
			}
		case "delete", "clear":
			if len(cc.Args) > 0 && get(cc.Args[0])&TSelf != 0 {
				add(call, b.Name()+" on", describeAddr(cc.Args[0]))
			}
		}
		return
	}
	// slices.Insert / Delete / Replace shift the elements of their argument in place when the capacity allows
	if strings.HasPrefix(name, "slices.Insert") || strings.HasPrefix(name, "slices.Delete") || strings.HasPrefix(name, "slices.Replace") {
		if len(cc.Args) > 0 && get(cc.Args[0])&TSelf != 0 {
			add(call, "in-place "+strings.SplitN(name, "[", 2)[0]+" on", describeAddr(cc.Args[0]))
		}
		return
	}
	if cc.IsInvoke() {
		if reflectMutators[cc.Method.Name()] && get(cc.Value)&TSelf != 0 {
			tn := types.TypeString(cc.Value.Type(), nil)
			if strings.Contains(tn, "protoreflect") {
				add(call, "reflection "+cc.Method.Name()+" on", describeAddr(cc.Value))
			}
		}
		return
	}
	if m, ok := extMutators[name]; ok {
		for _, i := range m.args {
			if i >= len(cc.Args) {
				continue
			}
			tt := get(cc.Args[i])
			if tt&TSelf != 0 || (m.deep && tt&TElem != 0) {
				kind := "mutator call"
				if m.deep {
					kind = "deep mutator call"
				}
				what := describeAddr(cc.Args[i])
				if tt&TSelf == 0 {
					what += " (a fresh container holding published messages)"
				}
				add(call, kind, ModRel(name)+" writes "+what+": "+m.why)
			}
		}
		return
	}
	callee := cc.StaticCallee()
	if callee == nil || !w.P.AllFuncs[callee] || callee == fn {
		return
	}
	sum := w.Summary(callee)
	if sum == nil {
		return
	}
	for i, wr := range sum.Writes {
		if !wr || i >= len(cc.Args) {
			continue
		}
		tt := get(cc.Args[i])
		if tt&TSelf != 0 || (sum.Deep[i] && tt&TElem != 0) {
			kind := "callee writes its argument"
			if sum.Deep[i] {
				kind = "deep callee writes its argument"
			}
			what := describeAddr(cc.Args[i])
			if tt&TSelf == 0 {
				what += " (a fresh container holding published messages)"
			}
			add(call, kind, fmt.Sprintf("%s(#%d = %s): %s", ModRel(FuncQName(callee)), i, what, sum.WritesWhat[i]))
		}
	}
}

// syntheticPath names a location below a value that has no source-level access path (the result of
// a call, a type assertion of one, a fresh allocation): "@t12.Segments". SSA names are unique within
// a function, which is the scope the path is used in.
func syntheticPath(v ssa.Value) string {
	suffix := ""
	for depth := 0; depth < 12; depth++ {
		switch x := v.(type) {
		case *ssa.FieldAddr:
			suffix = "." + fieldName(x.X.Type(), x.Field) + suffix
			v = x.X
		case *ssa.Field:
			suffix = "." + fieldName(x.X.Type(), x.Field) + suffix
			v = x.X
		case *ssa.UnOp:
			if x.Op != token.MUL {
				return ""
			}
			v = x.X
		case *ssa.TypeAssert:
			v = x.X
		case *ssa.ChangeType:
			v = x.X
		case *ssa.MakeInterface:
			v = x.X
		case *ssa.Extract:
			suffix = fmt.Sprintf("#%d", x.Index) + suffix
			v = x.Tuple
		case *ssa.Call, *ssa.Alloc, *ssa.MakeSlice, *ssa.MakeMap:
			if suffix == "" {
				return ""
			}
			return "@" + v.Name() + suffix
		default:
			return ""
		}
	}
	return ""
}
