// Package an holds the program loader and the analysis utilities shared by all
// property rule sets. Nothing in here executes code of the analysed
// repository: it parses, type-checks and builds SSA.
package an

import (
	"fmt"
	"go/ast"
	"go/constant"
	"go/token"
	"go/types"
	"os"
	"path/filepath"
	"sort"
	"strings"

	"golang.org/x/tools/go/callgraph"
	"golang.org/x/tools/go/callgraph/cha"
	"golang.org/x/tools/go/callgraph/vta"
	"golang.org/x/tools/go/packages"
	"golang.org/x/tools/go/ssa"
	"golang.org/x/tools/go/ssa/ssautil"
)

// ModulePath is the import path prefix of the analysed module.
const ModulePath = "github.com/smart-core-os/sc-golang"

// RepoDir is the directory analysed. It can be overridden with SCVERIF_REPO
// (used only by the checker's own self tests on scratch copies).
func RepoDir() string {
	if d := os.Getenv("SCVERIF_REPO"); d != "" {
		return d
	}
	return "/repo"
}

// MinPackages is the number of packages of the module on the pinned tree.
// Fewer loaded packages means the loader saw an incomplete program (G3).
const MinPackages = 56

// Program is the loaded, type-checked module plus its SSA form.
type Program struct {
	Fset   *token.FileSet
	Pkgs   []*packages.Package          // module packages (initial), sorted by path
	ByPath map[string]*packages.Package // import path -> package (module packages only)
	SSA    *ssa.Program
	SSAPkg map[string]*ssa.Package // import path -> SSA package (module packages only)

	AllFuncs     map[*ssa.Function]bool // every function with a body in module packages (incl. anonymous)
	globalNonNil map[*ssa.Global]int
	funcAlias    map[*ssa.Function]string // renamed function -> its reference name
	aliasByOld   map[string]*ssa.Function
	fieldAlias   map[string]string // "pkg.Struct.newName" -> reference field name

	chaG *callgraph.Graph
	vtaG *callgraph.Graph

	fileOf map[*token.File]*ast.File

	// Deps maps every loaded package path (module and dependencies) to its types.
	Deps map[string]*types.Package
	// DepSyntax maps every loaded package path to its parsed files.
	DepSyntax map[string][]*ast.File
	// OverlaySrc is the overlay the program was loaded with (control mutants).
	OverlaySrc map[string][]byte
}

// Load loads ./... of RepoDir with all dependencies from source, type-checks
// and builds SSA bodies for the module's own packages. overlay maps absolute
// file names to replacement contents (used for control mutants).
func Load(overlay map[string][]byte) (*Program, error) {
	dir := RepoDir()
	env := append(os.Environ(),
		"GOFLAGS=-mod=mod", "GOPROXY=off", "GOSUMDB=off", "GOTOOLCHAIN=local", "GOWORK=off")
	cfg := &packages.Config{
		Mode:    packages.LoadAllSyntax,
		Dir:     dir,
		Env:     env,
		Tests:   false,
		Overlay: overlay,
	}
	pkgs, err := packages.Load(cfg, "./...")
	if err != nil {
		return nil, fmt.Errorf("packages.Load: %w", err)
	}
	var errs []string
	packages.Visit(pkgs, nil, func(p *packages.Package) {
		if !strings.HasPrefix(p.PkgPath, ModulePath) {
			return
		}
		for _, e := range p.Errors {
			errs = append(errs, e.Error())
		}
	})
	if len(errs) > 0 {
		sort.Strings(errs)
		if len(errs) > 10 {
			errs = errs[:10]
		}
		return nil, fmt.Errorf("type/parse errors in module packages: %s", strings.Join(errs, "; "))
	}
	if len(pkgs) < MinPackages {
		return nil, fmt.Errorf("loaded %d packages, expected at least %d", len(pkgs), MinPackages)
	}
	sort.Slice(pkgs, func(i, j int) bool { return pkgs[i].PkgPath < pkgs[j].PkgPath })

	prog, ssapkgs := ssautil.Packages(pkgs, ssa.InstantiateGenerics)
	for i, sp := range ssapkgs {
		if sp == nil {
			return nil, fmt.Errorf("no SSA for package %s", pkgs[i].PkgPath)
		}
	}
	prog.Build()

	p := &Program{
		Fset:       pkgs[0].Fset,
		Pkgs:       pkgs,
		ByPath:     map[string]*packages.Package{},
		SSA:        prog,
		SSAPkg:     map[string]*ssa.Package{},
		AllFuncs:   map[*ssa.Function]bool{},
		fileOf:     map[*token.File]*ast.File{},
		Deps:       map[string]*types.Package{},
		DepSyntax:  map[string][]*ast.File{},
		OverlaySrc: overlay,
	}
	packages.Visit(pkgs, nil, func(pk *packages.Package) {
		if pk.Types != nil {
			p.Deps[pk.PkgPath] = pk.Types
			p.DepSyntax[pk.PkgPath] = pk.Syntax
		}
	})
	for i, pk := range pkgs {
		p.ByPath[pk.PkgPath] = pk
		p.SSAPkg[pk.PkgPath] = ssapkgs[i]
		for _, f := range pk.Syntax {
			if tf := p.Fset.File(f.Pos()); tf != nil {
				p.fileOf[tf] = f
			}
		}
	}
	for fn := range ssautil.AllFunctions(prog) {
		if fn.Blocks == nil || fn.Pkg == nil && fn.Package() == nil {
			continue
		}
		pk := fn.Package()
		if pk == nil || pk.Pkg == nil {
			continue
		}
		if _, ok := p.SSAPkg[pk.Pkg.Path()]; ok {
			p.AllFuncs[fn] = true
		}
	}
	currentProg = p
	p.computeAliases()
	return p, nil
}

// currentProg is the program loaded last (rules run on one program at a time; control mutants load a new one).
var currentProg *Program

// GlobalAlwaysNonNil reports whether the package-level variable g is assigned exactly once in the module, in a
// package initialiser, from a call (e.g. var ErrX = status.Error(…) / errors.New(…)): such a sentinel error is
// never nil.
func GlobalAlwaysNonNil(g *ssa.Global) bool {
	p := currentProg
	if p == nil {
		return false
	}
	if p.globalNonNil == nil {
		p.globalNonNil = map[*ssa.Global]int{}
		for fn := range p.AllFuncs {
			isInit := fn.Name() == "init" && fn.Parent() == nil
			Instrs(fn, func(in ssa.Instruction) {
				st, ok := in.(*ssa.Store)
				if !ok {
					return
				}
				gl, ok := st.Addr.(*ssa.Global)
				if !ok {
					return
				}
				_, isCall := st.Val.(*ssa.Call)
				if isInit && isCall && p.globalNonNil[gl] == 0 {
					p.globalNonNil[gl] = 1
				} else {
					p.globalNonNil[gl] = 2 // several stores, or a store that is not an initialising call
				}
			})
		}
	}
	return p.globalNonNil[g] == 1
}

// CHA returns the class-hierarchy call graph (built on demand).
func (p *Program) CHA() *callgraph.Graph {
	if p.chaG == nil {
		p.chaG = cha.CallGraph(p.SSA)
	}
	return p.chaG
}

// VTA returns the variable-type-analysis call graph (built on demand).
func (p *Program) VTA() *callgraph.Graph {
	if p.vtaG == nil {
		p.vtaG = vta.CallGraph(ssautil.AllFunctions(p.SSA), p.CHA())
	}
	return p.vtaG
}

// Rel returns the path of pos relative to the repository, with the line.
func (p *Program) Rel(pos token.Pos) string {
	if !pos.IsValid() {
		return "?"
	}
	ps := p.Fset.Position(pos)
	rel, err := filepath.Rel(RepoDir(), ps.Filename)
	if err != nil {
		rel = ps.Filename
	}
	return fmt.Sprintf("%s:%d", rel, ps.Line)
}

// RelFile returns only the repository-relative file name of pos.
func (p *Program) RelFile(pos token.Pos) string {
	if !pos.IsValid() {
		return "?"
	}
	ps := p.Fset.Position(pos)
	rel, err := filepath.Rel(RepoDir(), ps.Filename)
	if err != nil {
		rel = ps.Filename
	}
	return rel
}

// Pkg returns the module package with the given path relative to the module
// root ("pkg/resource"), or nil.
func (p *Program) Pkg(rel string) *packages.Package {
	if rel == "" || rel == "." {
		return p.ByPath[ModulePath]
	}
	return p.ByPath[ModulePath+"/"+rel]
}

// SSAPackage is like Pkg for the SSA package.
func (p *Program) SSAPackage(rel string) *ssa.Package {
	return p.SSAPkg[ModulePath+"/"+rel]
}

// Func resolves a function or method by package (relative), receiver type
// name ("" for functions) and name. Returns nil when absent.
func (p *Program) Func(relPkg, recv, name string) *ssa.Function {
	if f := p.funcByName(relPkg, recv, name); f != nil {
		return f
	}
	// renamed? (see known.go)
	pkgPath := ModulePath + "/" + relPkg
	for _, q := range []string{pkgPath + "." + name, "(*" + pkgPath + "." + recv + ")." + name, "(" + pkgPath + "." + recv + ")." + name} {
		if recv == "" && strings.HasPrefix(q, "(") {
			continue
		}
		if f := p.aliasByOld[q]; f != nil {
			return f
		}
	}
	return nil
}

func (p *Program) funcByName(relPkg, recv, name string) *ssa.Function {
	sp := p.SSAPackage(relPkg)
	if sp == nil {
		return nil
	}
	if recv == "" {
		return sp.Func(name)
	}
	obj := sp.Pkg.Scope().Lookup(recv)
	if obj == nil {
		return nil
	}
	tn, ok := obj.(*types.TypeName)
	if !ok {
		return nil
	}
	T := tn.Type()
	for _, t := range []types.Type{T, types.NewPointer(T)} {
		ms := p.SSA.MethodSets.MethodSet(t)
		for i := 0; i < ms.Len(); i++ {
			sel := ms.At(i)
			if sel.Obj().Name() == name && sel.Obj().Pkg() == sp.Pkg {
				// only methods declared on this type (not promoted)
				if len(sel.Index()) == 1 {
					return p.SSA.MethodValue(sel)
				}
			}
		}
	}
	return nil
}

// FuncDecl returns the syntax of fn (FuncDecl or FuncLit) or nil.
func (p *Program) FuncSyntax(fn *ssa.Function) ast.Node {
	if fn == nil {
		return nil
	}
	return fn.Syntax()
}

// TypesInfo returns the types.Info of the module package containing pos.
func (p *Program) InfoFor(pkg *types.Package) *types.Info {
	if pk, ok := p.ByPath[pkg.Path()]; ok {
		return pk.TypesInfo
	}
	return nil
}

// IsGenerated reports whether the file containing pos is a generated file
// (name ends in .pb.go).
func (p *Program) IsGenerated(pos token.Pos) bool {
	return strings.HasSuffix(p.RelFile(pos), ".pb.go")
}

// FuncsIn returns all functions (incl. anonymous) with bodies whose package
// path relative to the module has the given prefix, sorted by position.
func (p *Program) FuncsIn(relPrefix string) []*ssa.Function {
	var out []*ssa.Function
	pre := ModulePath + "/" + relPrefix
	for fn := range p.AllFuncs {
		pk := fn.Package()
		if pk == nil {
			continue
		}
		path := pk.Pkg.Path()
		if path == pre || strings.HasPrefix(path, pre+"/") || relPrefix == "" {
			out = append(out, fn)
		}
	}
	SortFuncs(out)
	return out
}

// SortFuncs sorts by position then name (deterministic output).
func SortFuncs(fs []*ssa.Function) {
	sort.Slice(fs, func(i, j int) bool {
		if fs[i].Pos() != fs[j].Pos() {
			return fs[i].Pos() < fs[j].Pos()
		}
		return fs[i].String() < fs[j].String()
	})
}

// FuncName gives a stable, human readable name: pkgrel.(Recv).Name$1
func FuncName(fn *ssa.Function) string {
	if fn == nil {
		return "<nil>"
	}
	s := fn.String()
	if top := fn; top.Parent() == nil {
		if old := refName(top); old != "" {
			s = old
		}
	} else {
		// an anonymous function of a renamed function: keep the "$n" suffixes on the reference name
		root := fn
		for root.Parent() != nil {
			root = root.Parent()
		}
		if old := refName(root); old != "" {
			s = old + strings.TrimPrefix(s, root.String())
		}
	}
	s = strings.ReplaceAll(s, ModulePath+"/", "")
	return s
}

// ConstInt returns the value of an integer constant declared in any loaded
// package (module or dependency).
func (p *Program) ConstInt(pkgPath, name string) (int64, bool) {
	tp := p.Deps[pkgPath]
	if tp == nil {
		return 0, false
	}
	c, ok := tp.Scope().Lookup(name).(*types.Const)
	if !ok {
		return 0, false
	}
	v, exact := constant.Int64Val(constant.ToInt(c.Val()))
	return v, exact
}
