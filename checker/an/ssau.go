package an

import (
	"fmt"
	"go/constant"
	"go/token"
	"go/types"
	"sort"
	"strings"

	"golang.org/x/tools/go/ssa"
)

// ---------------------------------------------------------------- callees

// CalleeName returns a stable qualified name for the callee of a call:
//   - static function:  "pkg/path.Func"
//   - static method:    "(*pkg/path.T).M" or "(pkg/path.T).M"
//   - interface invoke: "invoke (pkg/path.I).M"
//   - builtin:          "builtin append"
//   - dynamic (closure / func value): "dynamic"
func CalleeName(call ssa.CallInstruction) string {
	cc := call.Common()
	if cc.IsInvoke() {
		recv := cc.Value.Type()
		return fmt.Sprintf("invoke (%s).%s", types.TypeString(recv, nil), cc.Method.Name())
	}
	switch v := cc.Value.(type) {
	case *ssa.Builtin:
		return "builtin " + v.Name()
	case *ssa.Function:
		return FuncQName(v)
	case *ssa.MakeClosure:
		if f, ok := v.Fn.(*ssa.Function); ok {
			return FuncQName(f)
		}
	}
	return "dynamic"
}

// FuncQName gives the qualified name of a function, with generic
// instantiations mapped to their origin.
func FuncQName(f *ssa.Function) string {
	if f == nil {
		return ""
	}
	if o := f.Origin(); o != nil {
		f = o
	}
	if old := refName(f); old != "" {
		return old // a renamed function keeps its reference name
	}
	return f.String()
}

// StaticCallee returns the statically known callee (function, method or
// immediately-invoked closure) of a call, or nil.
func StaticCallee(call ssa.CallInstruction) *ssa.Function {
	cc := call.Common()
	if f := cc.StaticCallee(); f != nil {
		return f
	}
	return nil
}

// IsCallTo reports whether instr is a call (incl. go/defer) to one of names.
func IsCallTo(instr ssa.Instruction, names ...string) bool {
	call, ok := instr.(ssa.CallInstruction)
	if !ok {
		return false
	}
	n := CalleeName(call)
	for _, want := range names {
		if n == want {
			return true
		}
	}
	return false
}

// CallsIn returns every call instruction of fn (not descending into
// closures) whose callee name satisfies match.
func CallsIn(fn *ssa.Function, match func(name string) bool) []ssa.CallInstruction {
	var out []ssa.CallInstruction
	for _, b := range fn.Blocks {
		for _, in := range b.Instrs {
			if c, ok := in.(ssa.CallInstruction); ok && match(CalleeName(c)) {
				out = append(out, c)
			}
		}
	}
	return out
}

// CallsTo is CallsIn with a fixed list of names.
func CallsTo(fn *ssa.Function, names ...string) []ssa.CallInstruction {
	return CallsIn(fn, func(n string) bool {
		for _, w := range names {
			if n == w {
				return true
			}
		}
		return false
	})
}

// Instrs calls f for every instruction of fn.
func Instrs(fn *ssa.Function, f func(ssa.Instruction)) {
	for _, b := range fn.Blocks {
		for _, in := range b.Instrs {
			f(in)
		}
	}
}

// WithClosures returns fn and all anonymous functions nested in it (any depth). A goroutine body that lives in a
// function the rules have never seen (`go r.pump(ctx, …)` instead of `go func() { … }()`) counts as nested too: its
// parameters resolve to the arguments of the go statement (see transparentCallSites).
func WithClosures(fn *ssa.Function) []*ssa.Function {
	seen := map[*ssa.Function]bool{}
	var out []*ssa.Function
	var walk func(f *ssa.Function)
	walk = func(f *ssa.Function) {
		if seen[f] {
			return
		}
		seen[f] = true
		out = append(out, f)
		for _, a := range f.AnonFuncs {
			walk(a)
		}
		Instrs(f, func(in ssa.Instruction) {
			if g, ok := in.(*ssa.Go); ok {
				if h := transparentCalleeOf(g.Common(), f); h != nil && h.Parent() == nil {
					walk(h)
				}
			}
		})
	}
	walk(fn)
	return out
}

// ---------------------------------------------------------------- positions in the CFG

// Index returns the index of in inside its block.
func Index(in ssa.Instruction) int {
	b := in.Block()
	for i, x := range b.Instrs {
		if x == in {
			return i
		}
	}
	return -1
}

// Dominates reports whether instruction a dominates instruction b (a is
// executed on every path from the function entry to b). a == b counts.
func Dominates(a, b ssa.Instruction) bool {
	if a.Parent() != b.Parent() {
		return false
	}
	ba, bb := a.Block(), b.Block()
	if ba == bb {
		return Index(a) <= Index(b)
	}
	return ba.Dominates(bb)
}

// Node is an instruction position used by path searches.
type Node struct {
	B *ssa.BasicBlock
	I int
}

func nodeOf(in ssa.Instruction) Node { return Node{in.Block(), Index(in)} }

// PathQuery searches the intra-procedural CFG at instruction granularity.
type PathQuery struct {
	// Avoid: paths may not pass through instructions for which Avoid is true.
	Avoid func(ssa.Instruction) bool
	// AvoidEdge: paths may not take CFG edges for which AvoidEdge is true.
	AvoidEdge func(from, to *ssa.BasicBlock) bool
	// Target: search ends successfully at an instruction for which Target is true.
	Target func(ssa.Instruction) bool
	// Through (optional): the target only counts on paths that have passed at least Need (default 1) instructions
	// for which Through is true (instructions inside looked-through callees included).
	Through func(ssa.Instruction) bool
	Need    int
}

// From searches from the instruction *after* start (or from the function
// entry when start is nil, given fn). It returns the first target found and
// the list of blocks walked to reach it.
func (q PathQuery) From(fn *ssa.Function, start ssa.Instruction) (ssa.Instruction, []*ssa.BasicBlock) {
	return q.from(fn, start, nil)
}

// FromBlock searches from the first instruction of block b (inclusive).
func (q PathQuery) FromBlock(b *ssa.BasicBlock) (ssa.Instruction, []*ssa.BasicBlock) {
	return q.from(b.Parent(), nil, b)
}

func (q PathQuery) from(fn *ssa.Function, start ssa.Instruction, startBlock *ssa.BasicBlock) (ssa.Instruction, []*ssa.BasicBlock) {
	if len(fn.Blocks) == 0 {
		return nil, nil
	}
	// The search runs over the function TOGETHER WITH the bodies of the calls it looks through (local closures
	// called directly, same-package helpers the rules have never seen): such a call continues in the callee and a
	// callee's return continues after the call. Constant results of the callee are remembered along the path so
	// that the caller's test of that very result only follows the feasible branch.
	type item struct {
		chain []*ssa.Call
		b     *ssa.BasicBlock
		i     int
		known map[ssa.Value]string // call (single result) or extract -> "true" | "false" | "nil"
		prev  *item
		n     int // Through instructions passed so far (capped at Need)
	}
	need := q.Need
	if q.Through != nil && need == 0 {
		need = 1
	}
	keyOf := func(it *item) string {
		var sb strings.Builder
		for _, c := range it.chain {
			fmt.Fprintf(&sb, "%p/", c)
		}
		fmt.Fprintf(&sb, "%p:%d#%d", it.b, it.i, it.n)
		if len(it.known) > 0 {
			ks := make([]string, 0, len(it.known))
			for k, v := range it.known {
				ks = append(ks, fmt.Sprintf("%p=%s", k, v))
			}
			sort.Strings(ks)
			sb.WriteString("|" + strings.Join(ks, ","))
		}
		return sb.String()
	}
	var first *item
	if startBlock != nil {
		first = &item{b: startBlock}
	} else if start == nil {
		first = &item{b: fn.Blocks[0]}
	} else {
		first = &item{b: start.Block(), i: Index(start) + 1}
	}
	constOf := func(v ssa.Value, at ssa.Instruction) string {
		vals := ValuesAt(v)
		if len(vals) != 1 {
			return ""
		}
		if b, ok := ConstBool(vals[0]); ok {
			return fmt.Sprint(b)
		}
		if IsNilConst(vals[0]) {
			return "nil"
		}
		// an error that is certainly there: freshly made, a sentinel, or returned under its own non-nil test
		if IsErrorType(v.Type()) && (freshError(vals[0]) || KnownNonNil(vals[0], at)) {
			return "nonnil"
		}
		return ""
	}
	// decide evaluates a branch condition from what is known on this path: +1 true, -1 false, 0 unknown
	var decide func(cond ssa.Value, known map[ssa.Value]string) int
	decide = func(cond ssa.Value, known map[ssa.Value]string) int {
		if len(known) == 0 {
			return 0
		}
		switch x := cond.(type) {
		case *ssa.UnOp:
			if x.Op == token.NOT {
				return -decide(x.X, known)
			}
		case *ssa.BinOp:
			if x.Op == token.EQL || x.Op == token.NEQ {
				for _, pair := range [][2]ssa.Value{{x.X, x.Y}, {x.Y, x.X}} {
					if IsNilConst(pair[1]) {
						if k, ok := known[pair[0]]; ok && k == "nil" {
							if x.Op == token.EQL {
								return 1
							}
							return -1
						}
						if k, ok := known[pair[0]]; ok && k == "nonnil" {
							if x.Op == token.EQL {
								return -1
							}
							return 1
						}
					}
				}
			}
		}
		if k, ok := known[cond]; ok {
			switch k {
			case "true":
				return 1
			case "false":
				return -1
			}
		}
		return 0
	}
	seen := map[string]bool{}
	work := []*item{first}
	for len(work) > 0 {
		it := work[0]
		work = work[1:]
		stopped := false
		for i := it.i; i < len(it.b.Instrs) && !stopped; i++ {
			in := it.b.Instrs[i]
			if ret, isRet := in.(*ssa.Return); isRet && len(it.chain) > 0 {
				// the end of a looked-through callee: continue after the call, remembering constant results
				call := it.chain[len(it.chain)-1]
				known := map[ssa.Value]string{}
				for k, v := range it.known {
					known[k] = v
				}
				if len(ret.Results) == 1 {
					if k := constOf(ret.Results[0], ret); k != "" {
						known[call] = k
					} else {
						delete(known, call)
					}
				} else {
					for _, u := range Referrers(call) {
						if ex, ok := u.(*ssa.Extract); ok && ex.Index < len(ret.Results) {
							if k := constOf(ret.Results[ex.Index], ret); k != "" {
								known[ex] = k
							} else {
								delete(known, ex)
							}
						}
					}
				}
				nx := &item{chain: it.chain[:len(it.chain)-1], b: call.Block(), i: Index(call) + 1, known: known, prev: it, n: it.n}
				if k := keyOf(nx); !seen[k] {
					seen[k] = true
					work = append(work, nx)
				}
				stopped = true
				break
			}
			if q.Target != nil && q.Target(in) && it.n >= need {
				var path []*ssa.BasicBlock
				for p := it; p != nil; p = p.prev {
					path = append([]*ssa.BasicBlock{p.b}, path...)
				}
				return in, path
			}
			if q.Avoid != nil && q.Avoid(in) {
				stopped = true
				break
			}
			if q.Through != nil && it.n < need && q.Through(in) {
				// continue from the next instruction with the count raised (a new search state)
				nx := &item{chain: it.chain, b: it.b, i: i + 1, known: it.known, prev: it, n: it.n + 1}
				if k := keyOf(nx); !seen[k] {
					seen[k] = true
					work = append(work, nx)
				}
				stopped = true
				break
			}
			if call, isCall := in.(*ssa.Call); isCall && len(it.chain) < 3 {
				if h := TransparentCallee(call); h != nil && h != fn && len(h.Blocks) > 0 {
					onChain := h == it.b.Parent()
					for _, c := range it.chain {
						if c.Parent() == h {
							onChain = true
						}
					}
					if !onChain {
						nx := &item{chain: append(append([]*ssa.Call{}, it.chain...), call), b: h.Blocks[0], known: it.known, prev: it, n: it.n}
						if k := keyOf(nx); !seen[k] {
							seen[k] = true
							work = append(work, nx)
						}
						stopped = true
						break
					}
				}
			}
		}
		if stopped {
			continue
		}
		var only *ssa.BasicBlock
		if n := len(it.b.Instrs); n > 0 {
			if iff, isIf := it.b.Instrs[n-1].(*ssa.If); isIf && len(it.b.Succs) == 2 {
				switch decide(iff.Cond, it.known) {
				case 1:
					only = it.b.Succs[0]
				case -1:
					only = it.b.Succs[1]
				}
			}
		}
		for _, s := range it.b.Succs {
			if only != nil && s != only {
				continue
			}
			if q.AvoidEdge != nil && q.AvoidEdge(it.b, s) {
				continue
			}
			nx := &item{chain: it.chain, b: s, known: it.known, prev: it, n: it.n}
			if k := keyOf(nx); seen[k] {
				continue
			} else {
				seen[k] = true
			}
			work = append(work, nx)
		}
	}
	return nil, nil
}

// Reaches reports whether some path leads from (after) a to b.
func Reaches(a, b ssa.Instruction) bool {
	if a.Parent() != b.Parent() {
		return false
	}
	t, _ := PathQuery{Target: func(in ssa.Instruction) bool { return in == b }}.From(a.Parent(), a)
	return t != nil
}

// BlockPath renders a list of blocks for a report.
func BlockPath(p *Program, path []*ssa.BasicBlock) []string {
	var out []string
	for _, b := range path {
		pos := token.NoPos
		for _, in := range b.Instrs {
			if in.Pos().IsValid() {
				pos = in.Pos()
				break
			}
		}
		out = append(out, fmt.Sprintf("block %d (%s) %s", b.Index, b.Comment, p.Rel(pos)))
	}
	return out
}

// Returns lists the return instructions of fn.
func Returns(fn *ssa.Function) []*ssa.Return {
	var out []*ssa.Return
	for _, b := range fn.Blocks {
		if len(b.Instrs) == 0 || b == fn.Recover {
			continue // the recover block is only entered after a recovered panic
		}
		if r, ok := b.Instrs[len(b.Instrs)-1].(*ssa.Return); ok {
			out = append(out, r)
		}
	}
	return out
}

// ---------------------------------------------------------------- values

// IsNilConst reports whether v is the constant nil.
func IsNilConst(v ssa.Value) bool {
	c, ok := v.(*ssa.Const)
	return ok && c.Value == nil && !isBasic(c.Type())
}

func isBasic(t types.Type) bool {
	_, ok := t.Underlying().(*types.Basic)
	return ok
}

// ConstInt returns the integer value of a constant.
func ConstInt(v ssa.Value) (int64, bool) {
	c, ok := v.(*ssa.Const)
	if !ok || c.Value == nil {
		return 0, false
	}
	if c.Value.Kind() != constant.Int {
		return 0, false
	}
	return c.Int64(), true
}

// ConstBool returns the boolean value of a constant.
func ConstBool(v ssa.Value) (bool, bool) {
	c, ok := v.(*ssa.Const)
	if !ok || c.Value == nil || c.Value.Kind() != constant.Bool {
		return false, false
	}
	return constant.BoolVal(c.Value), true
}

// Unwrap strips conversions, interface boxing and type changes.
func Unwrap(v ssa.Value) ssa.Value {
	for {
		switch x := v.(type) {
		case *ssa.MakeInterface:
			v = x.X
		case *ssa.ChangeType:
			v = x.X
		case *ssa.ChangeInterface:
			v = x.X
		case *ssa.Convert:
			v = x.X
		default:
			return v
		}
	}
}

// Sources computes the set of "root" values v may originate from, looking
// through phis, conversions, loads from local allocs / captured variables
// (all stores to the cell in the defining function and its closures), tuple
// extraction (kept as Extract), type assertions. Roots are Parameters,
// Calls, Extracts, Consts, Allocs (as address), FreeVars that cannot be
// resolved, Globals, field loads etc.
func Sources(v ssa.Value) []ssa.Value { return sources(v, true) }

// SourcesOpaque is Sources without looking through local closures / unseen helpers: parameters and call results
// stay roots. For rules that match a particular parameter of the function they are analysing.
func SourcesOpaque(v ssa.Value) []ssa.Value { return sources(v, false) }

func sources(v ssa.Value, transparent bool) []ssa.Value {
	seen := map[ssa.Value]bool{}
	var out []ssa.Value
	var visit func(v ssa.Value)
	visit = func(v ssa.Value) {
		if v == nil || seen[v] {
			return
		}
		seen[v] = true
		switch x := v.(type) {
		case *ssa.Phi:
			for _, e := range x.Edges {
				visit(e)
			}
		case *ssa.MakeInterface:
			visit(x.X)
		case *ssa.ChangeType:
			visit(x.X)
		case *ssa.ChangeInterface:
			visit(x.X)
		case *ssa.Convert:
			visit(x.X)
		case *ssa.TypeAssert:
			visit(x.X)
		case *ssa.Extract:
			if ta, ok := x.Tuple.(*ssa.TypeAssert); ok && x.Index == 0 {
				visit(ta.X)
				return
			}
			if call, ok := x.Tuple.(*ssa.Call); ok && transparent && !IsErrorType(x.Type()) {
				// (error results stay opaque: which error a caller sees is decided by its own nil tests)
				if f := TransparentCallee(call); f != nil {
					for _, r := range successReturns(f) {
						if x.Index < len(r.Results) {
							visit(r.Results[x.Index])
						}
					}
					return
				}
			}
			out = append(out, v)
		case *ssa.Call:
			if f := TransparentCallee(x); transparent && f != nil && f.Signature.Results().Len() == 1 && !IsErrorType(x.Type()) {
				for _, r := range Returns(f) {
					visit(r.Results[0])
				}
				return
			}
			out = append(out, v)
		case *ssa.Parameter:
			if sites, idx := transparentCallSites(x); transparent && len(sites) > 0 {
				for _, site := range sites {
					if idx < len(site.Args) {
						visit(site.Args[idx])
					}
				}
				return
			}
			out = append(out, v)
		case *ssa.FreeVar:
			if b := FreeVarBinding(x); b != nil {
				visit(b)
				return
			}
			out = append(out, v)
		case *ssa.UnOp:
			if x.Op == token.MUL {
				if cell := CellOf(x.X); cell != nil {
					st := StoresTo(cell)
					if len(st) > 0 {
						for _, s := range st {
							visit(s.Val)
						}
						return
					}
				}
			}
			out = append(out, v)
		default:
			out = append(out, v)
		}
	}
	visit(v)
	return out
}

// Cell identifies a local variable cell: an Alloc in some function, possibly
// seen through FreeVars of nested closures.
type Cell struct{ Alloc *ssa.Alloc }

// CellOf resolves an address value (Alloc or FreeVar bound to an Alloc) to
// its cell; nil when the address is not a local variable.
func CellOf(addr ssa.Value) *Cell {
	for depth := 0; depth < 8; depth++ {
		switch x := addr.(type) {
		case *ssa.Alloc:
			return &Cell{x}
		case *ssa.FreeVar:
			fn := x.Parent()
			parent := fn.Parent()
			if parent == nil {
				return nil
			}
			idx := -1
			for i, fv := range fn.FreeVars {
				if fv == x {
					idx = i
				}
			}
			if idx < 0 {
				return nil
			}
			var bound ssa.Value
			Instrs(parent, func(in ssa.Instruction) {
				if mc, ok := in.(*ssa.MakeClosure); ok && mc.Fn == fn && idx < len(mc.Bindings) {
					bound = mc.Bindings[idx]
				}
			})
			if bound == nil {
				return nil
			}
			addr = bound
		default:
			return nil
		}
	}
	return nil
}

// addrsOfCell returns every SSA value (the Alloc and FreeVars in nested
// closures) that denotes the cell's address.
func addrsOfCell(c *Cell) map[ssa.Value]bool {
	out := map[ssa.Value]bool{c.Alloc: true}
	root := c.Alloc.Parent()
	var walk func(fn *ssa.Function)
	walk = func(fn *ssa.Function) {
		Instrs(fn, func(in ssa.Instruction) {
			if mc, ok := in.(*ssa.MakeClosure); ok {
				cf := mc.Fn.(*ssa.Function)
				for i, b := range mc.Bindings {
					if out[b] && i < len(cf.FreeVars) {
						out[cf.FreeVars[i]] = true
					}
				}
			}
		})
		for _, a := range fn.AnonFuncs {
			walk(a)
		}
	}
	// two passes so that bindings of nested closures propagate
	walk(root)
	walk(root)
	return out
}

// StoresTo returns every store instruction writing the cell, in the
// defining function and in closures capturing it.
func StoresTo(c *Cell) []*ssa.Store {
	addrs := addrsOfCell(c)
	var out []*ssa.Store
	for _, fn := range WithClosures(c.Alloc.Parent()) {
		Instrs(fn, func(in ssa.Instruction) {
			if st, ok := in.(*ssa.Store); ok && addrs[st.Addr] {
				out = append(out, st)
			}
		})
	}
	return out
}

// LoadsOf returns every load (UnOp MUL) of the cell.
func LoadsOf(c *Cell) []*ssa.UnOp {
	addrs := addrsOfCell(c)
	var out []*ssa.UnOp
	for _, fn := range WithClosures(c.Alloc.Parent()) {
		Instrs(fn, func(in ssa.Instruction) {
			if u, ok := in.(*ssa.UnOp); ok && u.Op == token.MUL && addrs[u.X] {
				out = append(out, u)
			}
		})
	}
	return out
}

// AccessPath renders a value as an access path rooted at a parameter,
// captured variable, global or call ("c.mu", "r.value", "l.ch"); "" when
// the value has no such path. Loads and address-of are transparent, so the
// path names the variable, not the SSA temporary.
func AccessPath(v ssa.Value) string { return accessPath(v, map[ssa.Value]bool{}) }

func accessPath(v ssa.Value, seen map[ssa.Value]bool) string {
	for depth := 0; depth < 12; depth++ {
		if seen[v] {
			return ""
		}
		seen[v] = true
		switch x := v.(type) {
		case *ssa.Parameter:
			return x.Name()
		case *ssa.FreeVar:
			return x.Name()
		case *ssa.Global:
			return x.Pkg.Pkg.Name() + "." + x.Name()
		case *ssa.Alloc:
			if x.Comment != "" {
				return x.Comment
			}
			return ""
		case *ssa.FieldAddr:
			base := accessPath(x.X, seen)
			if base == "" {
				return ""
			}
			return base + "." + fieldName(x.X.Type(), x.Field)
		case *ssa.Field:
			base := accessPath(x.X, seen)
			if base == "" {
				return ""
			}
			return base + "." + fieldName(x.X.Type(), x.Field)
		case *ssa.UnOp:
			if x.Op == token.MUL {
				v = x.X
				continue
			}
			return ""
		case *ssa.MakeInterface:
			v = x.X
		case *ssa.ChangeType:
			v = x.X
		case *ssa.ChangeInterface:
			v = x.X
		case *ssa.TypeAssert:
			v = x.X
		case *ssa.Phi:
			// a phi of identical paths is that path
			p := ""
			for i, e := range x.Edges {
				q := accessPath(e, seen)
				if i == 0 {
					p = q
				} else if q != p {
					return ""
				}
			}
			return p
		default:
			return ""
		}
	}
	return ""
}

func fieldName(t types.Type, i int) string {
	if p, ok := t.Underlying().(*types.Pointer); ok {
		t = p.Elem()
	}
	if s, ok := t.Underlying().(*types.Struct); ok && i < s.NumFields() {
		n := s.Field(i).Name()
		if currentProg != nil && len(currentProg.fieldAlias) > 0 {
			if old, renamed := currentProg.fieldAlias[NamedTypeName(t)+"."+n]; renamed {
				return old // a renamed field keeps its reference name
			}
		}
		return n
	}
	return fmt.Sprintf("#%d", i)
}

// FieldOf: if v is a load of / address of field `name` of a struct whose
// named type is `typ` (pkgpath.Name), return the base value.
func FieldOf(v ssa.Value) (base ssa.Value, structType string, field string, ok bool) {
	switch x := v.(type) {
	case *ssa.UnOp:
		if x.Op == token.MUL {
			return FieldOf(x.X)
		}
	case *ssa.FieldAddr:
		return x.X, NamedTypeName(x.X.Type()), fieldName(x.X.Type(), x.Field), true
	case *ssa.Field:
		return x.X, NamedTypeName(x.X.Type()), fieldName(x.X.Type(), x.Field), true
	}
	return nil, "", "", false
}

// NamedTypeName returns "pkgpath.Name" of a (pointer to) named type, or "".
func NamedTypeName(t types.Type) string {
	if p, ok := t.(*types.Pointer); ok {
		t = p.Elem()
	}
	if n, ok := t.(*types.Named); ok {
		o := n.Obj()
		if o.Pkg() == nil {
			return o.Name()
		}
		return o.Pkg().Path() + "." + o.Name()
	}
	return ""
}

// ModRel strips the module path prefix from a qualified name.
func ModRel(s string) string { return strings.ReplaceAll(s, ModulePath+"/", "") }

// ---------------------------------------------------------------- conditions

// CondEdge describes a CFG edge taken when a condition has a given outcome.
type CondEdge struct {
	If     *ssa.If
	Branch bool // true edge or false edge
}

// EdgeTarget returns the successor block of the edge.
func (e CondEdge) Target() *ssa.BasicBlock {
	if e.Branch {
		return e.If.Block().Succs[0]
	}
	return e.If.Block().Succs[1]
}

// EdgeGuards reports whether every path from the function entry to `in`
// takes the edge e (i.e. removing the edge makes `in` unreachable).
func EdgeGuards(e CondEdge, in ssa.Instruction) bool {
	fn := in.Parent()
	from := e.If.Block()
	to := e.Target()
	// both successors identical: the edge decides nothing
	if from.Succs[0] == from.Succs[1] {
		return false
	}
	t, _ := PathQuery{
		Target:    func(x ssa.Instruction) bool { return x == in },
		AvoidEdge: func(a, b *ssa.BasicBlock) bool { return a == from && b == to },
	}.From(fn, nil)
	return t == nil
}

// GuardingEdges lists, for instruction in, all conditional edges that every
// path to it must take, in no particular order.
func GuardingEdges(in ssa.Instruction) []CondEdge {
	var out []CondEdge
	fn := in.Parent()
	for _, b := range fn.Blocks {
		if len(b.Instrs) == 0 {
			continue
		}
		iff, ok := b.Instrs[len(b.Instrs)-1].(*ssa.If)
		if !ok {
			continue
		}
		if !b.Dominates(in.Block()) {
			continue
		}
		for _, br := range []bool{true, false} {
			e := CondEdge{iff, br}
			if EdgeGuards(e, in) {
				out = append(out, e)
			}
		}
	}
	// conditions decided inside calls the analyses look through (a validation moved into a helper): an edge of the
	// helper that every path to `in` takes guards it just the same
	for _, h := range transparentCalleesOf(fn, 2) {
		for _, b := range h.Blocks {
			if len(b.Instrs) == 0 {
				continue
			}
			iff, ok := b.Instrs[len(b.Instrs)-1].(*ssa.If)
			if !ok {
				continue
			}
			for _, br := range []bool{true, false} {
				e := CondEdge{iff, br}
				if EdgeGuards(e, in) {
					out = append(out, e)
				}
			}
		}
	}
	return out
}

// transparentCalleesOf lists the functions reached from fn through calls the analyses look through.
// TransparentCalleesOf lists the callees of fn the analyses look through (see TransparentCallee), `depth` levels deep.
func TransparentCalleesOf(fn *ssa.Function, depth int) []*ssa.Function {
	return transparentCalleesOf(fn, depth)
}

func transparentCalleesOf(fn *ssa.Function, depth int) []*ssa.Function {
	var out []*ssa.Function
	seen := map[*ssa.Function]bool{fn: true}
	var walk func(f *ssa.Function, d int)
	walk = func(f *ssa.Function, d int) {
		if d == 0 {
			return
		}
		Instrs(f, func(in ssa.Instruction) {
			if call, ok := in.(*ssa.Call); ok {
				if h := TransparentCallee(call); h != nil && !seen[h] && len(h.Blocks) > 0 {
					seen[h] = true
					out = append(out, h)
					walk(h, d-1)
				}
			}
		})
	}
	walk(fn, depth)
	return out
}

// NilTest decomposes cond as a nil comparison: returns the compared value
// and whether the condition being TRUE means "value is nil".
func NilTest(cond ssa.Value) (v ssa.Value, trueMeansNil bool, ok bool) {
	neg := false
	for {
		if u, isU := cond.(*ssa.UnOp); isU && u.Op == token.NOT {
			neg = !neg
			cond = u.X
			continue
		}
		break
	}
	b, isB := cond.(*ssa.BinOp)
	if !isB || (b.Op != token.EQL && b.Op != token.NEQ) {
		return nil, false, false
	}
	var x ssa.Value
	if IsNilConst(b.Y) {
		x = b.X
	} else if IsNilConst(b.X) {
		x = b.Y
	} else {
		return nil, false, false
	}
	t := b.Op == token.EQL
	if neg {
		t = !t
	}
	return x, t, true
}

// SameValue reports whether a and b denote the same runtime value for the
// purposes of condition matching: identical SSA value, or loads of the same
// cell / access path with no intervening consideration (used only for
// locals that are assigned once per path; callers check dominance).
func SameValue(a, b ssa.Value) bool {
	if a == b {
		return true
	}
	ua, ok1 := a.(*ssa.UnOp)
	ub, ok2 := b.(*ssa.UnOp)
	if ok1 && ok2 && ua.Op == token.MUL && ub.Op == token.MUL {
		ca, cb := CellOf(ua.X), CellOf(ub.X)
		if ca != nil && cb != nil && ca.Alloc == cb.Alloc {
			return true
		}
	}
	return false
}

// KnownNonNil reports whether value v is known to be non-nil at instruction
// `at` because every path to `at` goes through an edge on which a nil test of
// v (same SSA value or same local cell) came out non-nil.
func KnownNonNil(v ssa.Value, at ssa.Instruction) bool {
	for _, e := range GuardingEdges(at) {
		x, trueMeansNil, ok := NilTest(e.If.Cond)
		if !ok {
			continue
		}
		if !SameValue(x, v) {
			continue
		}
		if e.Branch != trueMeansNil {
			return true
		}
	}
	return false
}

// KnownNil is the dual of KnownNonNil.
func KnownNil(v ssa.Value, at ssa.Instruction) bool {
	for _, e := range GuardingEdges(at) {
		x, trueMeansNil, ok := NilTest(e.If.Cond)
		if !ok || !SameValue(x, v) {
			continue
		}
		if e.Branch == trueMeansNil {
			return true
		}
	}
	return false
}

// ---------------------------------------------------------------- misc

// TypeIs reports whether t (or its pointee) is the named type pkgpath.Name.
func TypeIs(t types.Type, qname string) bool { return NamedTypeName(t) == qname }

// IsErrorType reports whether t is the predeclared error type.
func IsErrorType(t types.Type) bool {
	return types.Identical(t, types.Universe.Lookup("error").Type())
}

// SortedKeys returns the sorted keys of a string-keyed map.
func SortedKeys[V any](m map[string]V) []string {
	var ks []string
	for k := range m {
		ks = append(ks, k)
	}
	sort.Strings(ks)
	return ks
}

// Referrers returns the referrers of v (nil-safe).
func Referrers(v ssa.Value) []ssa.Instruction {
	r := v.Referrers()
	if r == nil {
		return nil
	}
	return *r
}

// FlowsTo reports whether value src reaches value/operand dst through
// value-preserving instructions (phi, conversions, interface boxing, type
// assertion, stores into and loads from local cells, tuple extraction of
// type assertions). It is a forward def-use closure from src.
func FlowsTo(src ssa.Value, isDst func(user ssa.Instruction, operand ssa.Value) bool) bool {
	seen := map[ssa.Value]bool{}
	var found bool
	var visit func(v ssa.Value)
	visit = func(v ssa.Value) {
		if found || v == nil || seen[v] {
			return
		}
		seen[v] = true
		for _, u := range Referrers(v) {
			if found {
				return
			}
			if isDst(u, v) {
				found = true
				return
			}
			switch x := u.(type) {
			case *ssa.Phi:
				visit(x)
			case *ssa.MakeInterface:
				visit(x)
			case *ssa.ChangeType:
				visit(x)
			case *ssa.ChangeInterface:
				visit(x)
			case *ssa.Convert:
				visit(x)
			case *ssa.TypeAssert:
				if x.X == v {
					visit(x)
				}
			case *ssa.Extract:
				visit(x)
			case *ssa.Store:
				if x.Val == v {
					if cell := CellOf(x.Addr); cell != nil {
						for _, l := range LoadsOf(cell) {
							visit(l)
						}
					}
				}
			}
		}
	}
	visit(src)
	return found
}

// ---------------------------------------------------------------- reaching definitions of local cells

// ReachingStores returns the stores to the cell loaded by `load` that may
// reach it inside load's own function (a store reaches the load if some path
// from the store to the load contains no other store to the same cell), and
// whether the load is also reachable from the function entry without any
// store (zero value / value set by a closure).
func ReachingStores(load *ssa.UnOp) (stores []*ssa.Store, fromEntry bool) {
	if load.Op != token.MUL {
		return nil, false
	}
	fn := load.Parent()
	isStore := func(in ssa.Instruction) bool {
		st, ok := in.(*ssa.Store)
		return ok && st.Addr == load.X
	}
	var all []*ssa.Store
	Instrs(fn, func(in ssa.Instruction) {
		if isStore(in) {
			all = append(all, in.(*ssa.Store))
		}
	})
	for _, st := range all {
		t, _ := PathQuery{
			Target: func(in ssa.Instruction) bool { return in == ssa.Instruction(load) },
			Avoid:  isStore,
		}.From(fn, st)
		if t != nil {
			stores = append(stores, st)
		}
	}
	t, _ := PathQuery{
		Target: func(in ssa.Instruction) bool { return in == ssa.Instruction(load) },
		Avoid:  isStore,
	}.From(fn, nil)
	fromEntry = t != nil
	return
}

// ValuesAt resolves v to the set of values it may hold, looking through
// phis, conversions and loads of local cells using *flow-sensitive* reaching
// definitions inside the function (unlike Sources, which unions all stores).
// Cells captured by closures fall back to all stores.
func ValuesAt(v ssa.Value) []ssa.Value {
	seen := map[ssa.Value]bool{}
	var out []ssa.Value
	var visit func(v ssa.Value)
	visit = func(v ssa.Value) {
		if v == nil || seen[v] {
			return
		}
		seen[v] = true
		switch x := v.(type) {
		case *ssa.Phi:
			for _, e := range x.Edges {
				visit(e)
			}
		case *ssa.MakeInterface:
			visit(x.X)
		case *ssa.ChangeType:
			visit(x.X)
		case *ssa.ChangeInterface:
			visit(x.X)
		case *ssa.Convert:
			visit(x.X)
		case *ssa.Extract:
			if call, ok := x.Tuple.(*ssa.Call); ok && !IsErrorType(x.Type()) {
				// (error results stay opaque: which error a caller sees is decided by its own nil tests)
				if f := TransparentCallee(call); f != nil {
					for _, r := range successReturns(f) {
						if x.Index < len(r.Results) {
							visit(r.Results[x.Index])
						}
					}
					return
				}
			}
			out = append(out, v)
		case *ssa.Call:
			if f := TransparentCallee(x); f != nil && f.Signature.Results().Len() == 1 && !IsErrorType(x.Type()) {
				for _, r := range Returns(f) {
					visit(r.Results[0])
				}
				return
			}
			out = append(out, v)
		case *ssa.Parameter:
			if sites, idx := transparentCallSites(x); len(sites) > 0 {
				for _, site := range sites {
					if idx < len(site.Args) {
						visit(site.Args[idx])
					}
				}
				return
			}
			out = append(out, v)
		case *ssa.UnOp:
			if x.Op == token.MUL {
				if a, ok := x.X.(*ssa.Alloc); ok {
					st, fromEntry := ReachingStores(x)
					if len(addrsOfCell(&Cell{a})) > 1 {
						// captured: closures may write it too
						for _, s := range StoresTo(&Cell{a}) {
							visit(s.Val)
						}
						if fromEntry {
							out = append(out, v)
						}
						return
					}
					for _, s := range st {
						visit(s.Val)
					}
					if fromEntry || len(st) == 0 {
						out = append(out, v)
					}
					return
				}
				if cell := CellOf(x.X); cell != nil {
					for _, s := range StoresTo(cell) {
						visit(s.Val)
					}
					return
				}
			}
			out = append(out, v)
		case *ssa.FreeVar:
			if b := FreeVarBinding(x); b != nil {
				visit(b)
				return
			}
			out = append(out, v)
		default:
			out = append(out, v)
		}
	}
	visit(v)
	return out
}

// IsExtractOf reports whether v is `extract call #idx`.
func IsExtractOf(v ssa.Value, call ssa.Value, idx int) bool {
	e, ok := v.(*ssa.Extract)
	return ok && e.Tuple == call && e.Index == idx
}

// OnlyValue returns the single value ValuesAt resolves to, or nil.
func OnlyValue(v ssa.Value) ssa.Value {
	vs := ValuesAt(v)
	if len(vs) == 1 {
		return vs[0]
	}
	return nil
}

// ErrNilEdge: if cond tests an error-typed value against nil, return the
// value and which branch means "error is nil".
func ErrNilEdge(iff *ssa.If) (errVal ssa.Value, nilBranch bool, ok bool) {
	v, trueMeansNil, ok := NilTest(iff.Cond)
	if !ok {
		return nil, false, false
	}
	return v, trueMeansNil, true
}

// GuardedByNilErr reports whether instruction `at` is only reachable through
// an edge on which errVal (resolved through local cells) is known nil, where
// errVal is result #idx of call.
func GuardedByNilResult(at ssa.Instruction, call ssa.Value, idx int) bool {
	for _, e := range GuardingEdges(at) {
		x, trueMeansNil, ok := NilTest(e.If.Cond)
		if !ok || e.Branch != trueMeansNil {
			continue
		}
		for _, s := range ValuesAt(x) {
			if IsExtractOf(s, call, idx) {
				return true
			}
		}
	}
	return false
}

// StatusCode: if v is the result of status.Error / status.Errorf with a
// constant code, return the code number.
func StatusCode(v ssa.Value) (int64, bool) { return statusCode(v, 0) }

func statusCode(v ssa.Value, depth int) (int64, bool) {
	call, ok := v.(*ssa.Call)
	if !ok {
		return 0, false
	}
	n := CalleeName(call)
	if n == "google.golang.org/grpc/status.Error" || n == "google.golang.org/grpc/status.Errorf" {
		return ConstInt(call.Call.Args[0])
	}
	// a module helper all of whose returns are a status of one and the same code
	// (e.g. func errBadToken(err error) error { return status.Errorf(codes.InvalidArgument, …) })
	cal := call.Call.StaticCallee()
	if cal == nil || depth > 2 || len(cal.Blocks) == 0 || cal.Package() == nil || !strings.HasPrefix(cal.Package().Pkg.Path(), ModulePath) {
		return 0, false
	}
	res := cal.Signature.Results()
	if res.Len() != 1 || !IsErrorType(res.At(0).Type()) {
		return 0, false
	}
	var code int64
	found := false
	for _, r := range Returns(cal) {
		for _, x := range ValuesAt(r.Results[0]) {
			cd, ok := statusCode(x, depth+1)
			if !ok || (found && cd != code) {
				return 0, false
			}
			code, found = cd, true
		}
	}
	return code, found
}

// gRPC status code numbers used by rules.
const (
	CodeCanceled           = 1
	CodeInvalidArgument    = 3
	CodeNotFound           = 5
	CodeAlreadyExists      = 6
	CodeFailedPrecondition = 9
	CodeAborted            = 10
	CodeUnimplemented      = 12
	CodeInternal           = 13
	CodeUnavailable        = 14
)

// GuardedByTrueResult reports whether `at` is only reachable through an edge
// on which boolean result #idx of call is true.
func GuardedByTrueResult(at ssa.Instruction, call ssa.Value, idx int) bool {
	for _, e := range GuardingEdges(at) {
		cond := e.If.Cond
		neg := false
		if u, ok := cond.(*ssa.UnOp); ok && u.Op == token.NOT {
			cond, neg = u.X, true
		}
		for _, s := range ValuesAt(cond) {
			if IsExtractOf(s, call, idx) && e.Branch != neg {
				return true
			}
		}
	}
	return false
}

// stripConv removes integer conversions.
func stripConv(v ssa.Value) ssa.Value {
	for {
		switch x := v.(type) {
		case *ssa.Convert:
			v = x.X
		case *ssa.ChangeType:
			v = x.X
		default:
			return v
		}
	}
}

// IntBounds computes bounds of the integer v as it is used at `at`, from constants, phis and the
// comparisons with constants that guard each contribution. A bound is missing (ok=false) when
// some contribution is not limited by a constant comparison. Path-sensitive per phi edge.
func IntBounds(v ssa.Value, at ssa.Instruction) (lo, hi int64, okLo, okHi bool) {
	return intBounds(v, GuardingEdges(at), map[ssa.Value]bool{})
}

func intBounds(v ssa.Value, conds []CondEdge, seen map[ssa.Value]bool) (lo, hi int64, okLo, okHi bool) {
	v = stripConv(v)
	if k, ok := ConstInt(v); ok {
		return k, k, true, true
	}
	if seen[v] {
		return 0, 0, false, false
	}
	seen[v] = true
	defer delete(seen, v)
	if phi, ok := v.(*ssa.Phi); ok {
		first := true
		okLo, okHi = true, true
		for i, e := range phi.Edges {
			pred := phi.Block().Preds[i]
			cs := append([]CondEdge{}, conds...)
			if n := len(pred.Instrs); n > 0 {
				cs = append(cs, GuardingEdges(pred.Instrs[n-1])...)
				if iff, isIf := pred.Instrs[n-1].(*ssa.If); isIf && pred.Succs[0] != pred.Succs[1] {
					cs = append(cs, CondEdge{iff, pred.Succs[0] == phi.Block()})
				}
			}
			l, h, ol, oh := intBounds(e, cs, seen)
			if first {
				lo, hi, first = l, h, false
			}
			okLo, okHi = okLo && ol, okHi && oh
			if l < lo {
				lo = l
			}
			if h > hi {
				hi = h
			}
		}
		return
	}
	// the result of a call the analyses look through: the join over the callee's (successful) returns, each under the
	// conditions that lead to it
	{
		var callee *ssa.Function
		idx := 0
		switch x := v.(type) {
		case *ssa.Extract:
			if call, isCall := x.Tuple.(*ssa.Call); isCall {
				callee, idx = TransparentCallee(call), x.Index
			}
		case *ssa.Call:
			if x.Call.Signature().Results().Len() == 1 {
				callee = TransparentCallee(x)
			}
		}
		if callee != nil {
			first := true
			okLo, okHi = true, true
			for _, r := range successReturns(callee) {
				if idx >= len(r.Results) {
					continue
				}
				cs := append(append([]CondEdge{}, conds...), GuardingEdges(r)...)
				l, h, ol, oh := intBounds(r.Results[idx], cs, seen)
				if first {
					lo, hi, first = l, h, false
				}
				okLo, okHi = okLo && ol, okHi && oh
				if l < lo {
					lo = l
				}
				if h > hi {
					hi = h
				}
			}
			if !first {
				return
			}
			okLo, okHi = false, false
		}
	}
	// a non-constant leaf: bounded by the guarding comparisons with constants
	for _, e := range conds {
		bo, ok := e.If.Cond.(*ssa.BinOp)
		if !ok {
			continue
		}
		op, x, y := bo.Op, bo.X, bo.Y
		if _, isC := ConstInt(x); isC { // k op v  ==  v op' k
			x, y = y, x
			switch op {
			case token.LSS:
				op = token.GTR
			case token.LEQ:
				op = token.GEQ
			case token.GTR:
				op = token.LSS
			case token.GEQ:
				op = token.LEQ
			}
		}
		k, isC := ConstInt(y)
		if !isC || !sameQuantity(stripConv(x), v) {
			continue
		}
		if !e.Branch { // negate
			switch op {
			case token.LSS:
				op = token.GEQ
			case token.LEQ:
				op = token.GTR
			case token.GTR:
				op = token.LEQ
			case token.GEQ:
				op = token.LSS
			case token.EQL:
				op = token.NEQ
			case token.NEQ:
				op = token.EQL
			}
		}
		setLo := func(n int64) {
			if !okLo || n > lo {
				lo, okLo = n, true
			}
		}
		setHi := func(n int64) {
			if !okHi || n < hi {
				hi, okHi = n, true
			}
		}
		switch op {
		case token.LSS:
			setHi(k - 1)
		case token.LEQ:
			setHi(k)
		case token.GTR:
			setLo(k + 1)
		case token.GEQ:
			setLo(k)
		case token.EQL:
			setLo(k)
			setHi(k)
		}
	}
	// v != lo excluded point
	for _, e := range conds {
		bo, ok := e.If.Cond.(*ssa.BinOp)
		if !ok {
			continue
		}
		k, isC := ConstInt(bo.Y)
		if !isC || !sameQuantity(stripConv(bo.X), v) {
			continue
		}
		if ((bo.Op == token.EQL && !e.Branch) || (bo.Op == token.NEQ && e.Branch)) && okLo && k == lo {
			lo++
		}
	}
	return
}

// PhiLeaf is one value that can flow into a phi web together with the conditional edges known to have been
// taken on the way in (guards of the predecessor block plus the predecessor's own branch into the phi's block).
type PhiLeaf struct {
	Val   ssa.Value
	Conds []CondEdge
}

// PhiLeaves flattens the phi web rooted at v path-sensitively (conversions are looked through).
func PhiLeaves(v ssa.Value) []PhiLeaf {
	var out []PhiLeaf
	seen := map[ssa.Value]bool{}
	var walk func(v ssa.Value, conds []CondEdge)
	walk = func(v ssa.Value, conds []CondEdge) {
		v = stripConv(v)
		if fv, isFV := v.(*ssa.FreeVar); isFV {
			if b := FreeVarBinding(fv); b != nil {
				v = stripConv(b)
			}
		}
		phi, ok := v.(*ssa.Phi)
		if !ok {
			// a local variable kept in memory (e.g. results spilled because of defer): the stores that reach the load,
			// each with the conditions under which it executes
			if ld, isLoad := v.(*ssa.UnOp); isLoad && ld.Op == token.MUL && !seen[v] {
				if a, isAlloc := ld.X.(*ssa.Alloc); isAlloc && len(addrsOfCell(&Cell{a})) == 1 {
					if sts, fromEntry := ReachingStores(ld); len(sts) > 0 && !fromEntry {
						seen[v] = true
						for _, st := range sts {
							walk(st.Val, append(append([]CondEdge{}, conds...), GuardingEdges(st)...))
						}
						return
					}
				}
			}
			// one result of a multi-result local closure / unseen helper
			if ex, isEx := v.(*ssa.Extract); isEx && !seen[v] && !IsErrorType(ex.Type()) {
				if call, isCall := ex.Tuple.(*ssa.Call); isCall {
					if f := TransparentCallee(call); f != nil {
						seen[v] = true
						for _, r := range successReturns(f) {
							if ex.Index < len(r.Results) {
								walk(r.Results[ex.Index], append(append([]CondEdge{}, conds...), GuardingEdges(r)...))
							}
						}
						return
					}
				}
			}
			// the result of a local closure / unseen helper: its returns, each with the conditions under which it is taken
			if call, isCall := v.(*ssa.Call); isCall && !seen[v] {
				if f := TransparentCallee(call); f != nil && f.Signature.Results().Len() == 1 && !IsErrorType(call.Type()) {
					seen[v] = true
					for _, r := range Returns(f) {
						walk(r.Results[0], append(append([]CondEdge{}, conds...), GuardingEdges(r)...))
					}
					return
				}
			}
			out = append(out, PhiLeaf{v, conds})
			return
		}
		if seen[phi] {
			return
		}
		seen[phi] = true
		for i, e := range phi.Edges {
			pred := phi.Block().Preds[i]
			cs := append([]CondEdge{}, conds...)
			if n := len(pred.Instrs); n > 0 {
				cs = append(cs, GuardingEdges(pred.Instrs[n-1])...)
				if iff, isIf := pred.Instrs[n-1].(*ssa.If); isIf && pred.Succs[0] != pred.Succs[1] {
					cs = append(cs, CondEdge{iff, pred.Succs[0] == phi.Block()})
				}
			}
			walk(e, cs)
		}
	}
	walk(v, nil)
	return out
}

var (
	tcsProg   *Program
	tcsIndex  map[*ssa.Function][]*ssa.CallCommon
	tcsParent map[*ssa.CallCommon]*ssa.Function
)

// transparentCallSites: for a parameter of a function that is only ever entered through calls the analyses look
// through (see TransparentCallee), the calls and the parameter's position among their arguments. Under Focus only
// the calls made from the focused function count (when there are any).
func transparentCallSites(p *ssa.Parameter) ([]*ssa.CallCommon, int) {
	f := p.Parent()
	if f == nil || currentProg == nil {
		return nil, 0
	}
	if tcsProg != currentProg {
		tcsProg, tcsIndex, tcsParent = currentProg, map[*ssa.Function][]*ssa.CallCommon{}, map[*ssa.CallCommon]*ssa.Function{}
		for fn := range currentProg.AllFuncs {
			Instrs(fn, func(in ssa.Instruction) {
				// calls, and `go f(args)` / `defer f(args)` of local closures: their arguments bind the parameters too
				if ci, ok := in.(ssa.CallInstruction); ok {
					if callee := transparentCalleeOf(ci.Common(), fn); callee != nil {
						tcsIndex[callee] = append(tcsIndex[callee], ci.Common())
						tcsParent[ci.Common()] = fn
					}
				}
			})
		}
	}
	sites := tcsIndex[f]
	if len(sites) == 0 {
		return nil, 0
	}
	if focusSet != nil {
		var in []*ssa.CallCommon
		for _, cc := range sites {
			if focusSet[tcsParent[cc]] {
				in = append(in, cc)
			}
		}
		if len(in) > 0 {
			sites = in
		}
	}
	for i, q := range f.Params {
		if q == p {
			return sites, i
		}
	}
	return nil, 0
}

// VirtualCall describes how a call instruction of fn stands for a call of one of the wanted callees: directly, or
// through a transparent callee (local closure / unseen helper) in which EVERY path from entry to a return passes
// such a call (Must) or merely some instruction is such a call (!Must).
type VirtualCall struct {
	Site  ssa.Instruction     // the instruction in fn
	Inner ssa.CallInstruction // the real call (== Site when direct)
	Via   *ssa.Function       // nil when direct
	Must  bool
}

// CallsToDeep lists the calls of fn to the named callees, looking through transparent callees (two levels).
func CallsToDeep(fn *ssa.Function, names ...string) []VirtualCall {
	return callsToDeep(fn, names, 0)
}

func callsToDeep(fn *ssa.Function, names []string, depth int) []VirtualCall {
	var out []VirtualCall
	for _, c := range CallsTo(fn, names...) {
		out = append(out, VirtualCall{Site: c, Inner: c, Must: true})
	}
	if depth >= 2 {
		return out
	}
	Instrs(fn, func(in ssa.Instruction) {
		call, ok := in.(*ssa.Call)
		if !ok {
			return
		}
		h := TransparentCallee(call)
		if h == nil || h == fn {
			return
		}
		inner := callsToDeep(h, names, depth+1)
		if len(inner) == 0 {
			return
		}
		isInner := map[ssa.Instruction]bool{}
		for _, ic := range inner {
			if ic.Must {
				isInner[ic.Site] = true
			}
		}
		t, _ := PathQuery{
			Target: func(x ssa.Instruction) bool { _, isRet := x.(*ssa.Return); return isRet },
			Avoid:  func(x ssa.Instruction) bool { return isInner[x] },
		}.From(h, nil)
		out = append(out, VirtualCall{Site: call, Inner: inner[0].Inner, Via: h, Must: t == nil})
	})
	return out
}

// IsCallToDeep: the instruction is a call of one of the named callees, or a call of a local closure / unseen
// helper whose body contains one (may-semantics, two levels).
func IsCallToDeep(in ssa.Instruction, names ...string) bool {
	if IsCallTo(in, names...) {
		return true
	}
	call, ok := in.(*ssa.Call)
	if !ok {
		return false
	}
	h := TransparentCallee(call)
	if h == nil {
		return false
	}
	found := false
	Instrs(h, func(x ssa.Instruction) {
		if IsCallTo(x, names...) {
			found = true
			return
		}
		if c2, ok := x.(*ssa.Call); ok {
			if h2 := TransparentCallee(c2); h2 != nil && h2 != h {
				Instrs(h2, func(y ssa.Instruction) {
					if IsCallTo(y, names...) {
						found = true
					}
				})
			}
		}
	})
	return found
}

// OrderFact: the ordering the conditional edge establishes between two integer values, however the test is
// spelled (<, <=, >, >=, negations): lo < hi (strict) or lo <= hi. ok=false for other conditions.
func OrderFact(e CondEdge) (lo, hi ssa.Value, strict, ok bool) {
	cond, branch := e.If.Cond, e.Branch
	for {
		if u, isNot := cond.(*ssa.UnOp); isNot && u.Op == token.NOT {
			cond, branch = u.X, !branch
			continue
		}
		break
	}
	bo, isBO := cond.(*ssa.BinOp)
	if !isBO {
		return nil, nil, false, false
	}
	x, y := stripConv(bo.X), stripConv(bo.Y)
	switch bo.Op {
	case token.LSS: // x < y ; negated: y <= x
		if branch {
			return x, y, true, true
		}
		return y, x, false, true
	case token.LEQ: // x <= y ; negated: y < x
		if branch {
			return x, y, false, true
		}
		return y, x, true, true
	case token.GTR: // x > y = y < x ; negated: x <= y
		if branch {
			return y, x, true, true
		}
		return x, y, false, true
	case token.GEQ: // x >= y = y <= x ; negated: x < y
		if branch {
			return y, x, false, true
		}
		return x, y, true, true
	}
	return nil, nil, false, false
}

// MinSelect recognises v = min(a, b) written as a conditional assignment: a phi with two incoming values, each
// taken on a path that established it to be the smaller (or equal) one. same decides whether two SSA values
// denote the same quantity (identity is always accepted).
func MinSelect(v ssa.Value, same func(x, y ssa.Value) bool) (a, b ssa.Value, ok bool) {
	if call, isCall := stripConv(v).(*ssa.Call); isCall && len(call.Call.Args) == 2 {
		if bi, isB := call.Call.Value.(*ssa.Builtin); isB && bi.Name() == "min" {
			return call.Call.Args[0], call.Call.Args[1], true
		}
	}
	leaves := PhiLeaves(v)
	if len(leaves) != 2 {
		return nil, nil, false
	}
	eq := func(x, y ssa.Value) bool {
		x, y = stripConv(x), stripConv(y)
		return x == y || (same != nil && same(x, y))
	}
	for i := 0; i < 2; i++ {
		l, o := leaves[i], leaves[1-i]
		smaller := false
		for _, e := range l.Conds {
			lo, hi, _, isOrd := OrderFact(e)
			if isOrd && eq(lo, l.Val) && eq(hi, o.Val) {
				smaller = true
			}
		}
		if !smaller {
			return nil, nil, false
		}
	}
	return leaves[0].Val, leaves[1].Val, true
}

// sameQuantity: the same SSA value, or two loads of the same field path of a parameter (`req.PageSize` read twice;
// request messages are not written between the reads).
func sameQuantity(a, b ssa.Value) bool {
	if a == b {
		return true
	}
	la, ok1 := a.(*ssa.UnOp)
	lb, ok2 := b.(*ssa.UnOp)
	if !ok1 || !ok2 || la.Op != token.MUL || lb.Op != token.MUL {
		return false
	}
	pa, pb := AccessPath(la), AccessPath(lb)
	return pa != "" && pa == pb && strings.Contains(pa, ".")
}

// CallsToDeepMatch is CallsToDeep with a predicate on the callee name.
func CallsToDeepMatch(fn *ssa.Function, match func(name string) bool) []VirtualCall {
	var names []string
	seen := map[string]bool{}
	var collect func(f *ssa.Function, d int)
	collect = func(f *ssa.Function, d int) {
		Instrs(f, func(in ssa.Instruction) {
			if call, ok := in.(ssa.CallInstruction); ok {
				if n := CalleeName(call); match(n) && !seen[n] {
					seen[n] = true
					names = append(names, n)
				}
				if c2, ok := in.(*ssa.Call); ok && d > 0 {
					if h := TransparentCallee(c2); h != nil && h != f {
						collect(h, d-1)
					}
				}
			}
		})
	}
	collect(fn, 2)
	if len(names) == 0 {
		return nil
	}
	return CallsToDeep(fn, names...)
}

// successReturns: the returns of a looked-through callee whose values a caller goes on to use: when the callee's
// last result is an error, returns that hand back a non-nil error (e.g. `return nil, 0, err`) carry placeholder
// values the caller discards after its error check, so they are left out.
func successReturns(f *ssa.Function) []*ssa.Return {
	rets := Returns(f)
	res := f.Signature.Results()
	if res.Len() < 2 || !IsErrorType(res.At(res.Len()-1).Type()) {
		return rets
	}
	var out []*ssa.Return
	for _, r := range rets {
		failing := true
		for _, v := range ValuesAt(r.Results[len(r.Results)-1]) {
			if IsNilConst(v) {
				failing = false
			}
		}
		if len(ValuesAt(r.Results[len(r.Results)-1])) == 0 {
			failing = false
		}
		if !failing {
			out = append(out, r)
		}
	}
	if len(out) == 0 {
		return rets
	}
	return out
}

// BodyWith returns fn itself, or the looked-through callee of fn (two levels), whose body contains an
// instruction satisfying pred: the function to analyse when the anchored function delegates its work to a
// helper the rules have not seen. nil when nothing matches.
func BodyWith(fn *ssa.Function, pred func(ssa.Instruction) bool) *ssa.Function {
	has := func(f *ssa.Function) bool {
		found := false
		Instrs(f, func(in ssa.Instruction) {
			if pred(in) {
				found = true
			}
		})
		return found
	}
	if has(fn) {
		return fn
	}
	for _, h := range transparentCalleesOf(fn, 2) {
		if has(h) {
			return h
		}
	}
	return nil
}

// AnonFuncsDeep lists the function literals of fn and of the callees of fn the analyses look through.
func AnonFuncsDeep(fn *ssa.Function) []*ssa.Function {
	out := append([]*ssa.Function{}, fn.AnonFuncs...)
	for _, h := range transparentCalleesOf(fn, 2) {
		if h.Parent() == nil {
			out = append(out, h.AnonFuncs...)
		}
	}
	return out
}

// BinOpFact is a comparison known to hold (or not) on a conditional edge.
type BinOpFact struct {
	Op    *ssa.BinOp
	Holds bool
}

// BinOpFacts expands a conditional edge into the comparisons it establishes: the condition itself, through
// negations, and through a looked-through helper that returns the comparison (`if m.isActive(id)` with
// `func (m *Model) isActive(id string) bool { return m.active().Id == id }`).
func BinOpFacts(e CondEdge) []BinOpFact {
	var out []BinOpFact
	var walk func(cond ssa.Value, holds bool, depth int)
	walk = func(cond ssa.Value, holds bool, depth int) {
		if depth > 3 {
			return
		}
		switch x := cond.(type) {
		case *ssa.UnOp:
			if x.Op == token.NOT {
				walk(x.X, !holds, depth+1)
			}
		case *ssa.BinOp:
			out = append(out, BinOpFact{x, holds})
		case *ssa.Call:
			if f := TransparentCallee(x); f != nil && f.Signature.Results().Len() == 1 {
				var live []PhiLeaf
				allOther := true
				for _, lf := range PhiLeaves(x) {
					if b, isC := ConstBool(lf.Val); isC {
						if b == holds {
							allOther = false // the constant answer is possible too: nothing follows
						}
						continue
					}
					live = append(live, lf)
				}
				if len(live) == 1 && allOther {
					walk(live[0].Val, holds, depth+1)
				}
			}
		}
	}
	walk(e.If.Cond, e.Branch, 0)
	return out
}

// SameValues: two values denote the same quantity: identical, or resolving (through locals, looked-through
// helpers' parameters and results) to the same set of values.
func SameValues(x, y ssa.Value) bool {
	if x == y {
		return true
	}
	xs, ys := map[ssa.Value]bool{}, map[ssa.Value]bool{}
	for _, v := range ValuesAt(x) {
		xs[stripConv(v)] = true
	}
	for _, v := range ValuesAt(y) {
		ys[stripConv(v)] = true
	}
	if len(xs) == 0 || len(xs) != len(ys) {
		return false
	}
	for v := range xs {
		if !ys[v] {
			return false
		}
	}
	return true
}

// SameExpr: x and y are the same pure expression: the same value, equal constants, the same arithmetic over the same
// expressions (`next+size` written twice), len of the same expression, or two reads of one field path of a parameter.
func SameExpr(x, y ssa.Value) bool {
	x, y = stripConv(x), stripConv(y)
	if x == y || sameQuantity(x, y) {
		return true
	}
	if kx, ok := ConstInt(x); ok {
		ky, ok2 := ConstInt(y)
		return ok2 && kx == ky
	}
	switch a := x.(type) {
	case *ssa.BinOp:
		b, ok := y.(*ssa.BinOp)
		if !ok || a.Op != b.Op {
			return false
		}
		if SameExpr(a.X, b.X) && SameExpr(a.Y, b.Y) {
			return true
		}
		return (a.Op == token.ADD || a.Op == token.MUL) && SameExpr(a.X, b.Y) && SameExpr(a.Y, b.X)
	case *ssa.Call:
		b, ok := y.(*ssa.Call)
		if !ok || CalleeName(a) != "builtin len" || CalleeName(b) != "builtin len" {
			return false
		}
		return SameExpr(a.Call.Args[0], b.Call.Args[0]) || SameValues(a.Call.Args[0], b.Call.Args[0])
	}
	return false
}

// freshError: v is an error that cannot be nil: errors.New / fmt.Errorf, a grpc status with a constant code other
// than OK, or a sentinel error variable that is assigned once at initialisation.
func freshError(v ssa.Value) bool {
	switch x := v.(type) {
	case *ssa.Call:
		switch CalleeName(x) {
		case "errors.New", "fmt.Errorf":
			return true
		case "google.golang.org/grpc/status.Error", "google.golang.org/grpc/status.Errorf":
			if k, ok := ConstInt(x.Call.Args[0]); ok && k != 0 {
				return true
			}
		}
	case *ssa.UnOp:
		if g, ok := x.X.(*ssa.Global); ok && x.Op == token.MUL {
			return GlobalAlwaysNonNil(g)
		}
	case *ssa.MakeInterface:
		_, isAlloc := x.X.(*ssa.Alloc)
		return isAlloc
	}
	return false
}

var (
	tcallersProg  *Program
	tcallersIndex map[*ssa.Function][]*ssa.Function
)

// Owners: the functions the rules know that fn belongs to: fn's outermost enclosing function, or - when that is a
// function the rules have never seen and it is only entered through calls they look through (a helper, a goroutine
// body started with `go f(…)`) - the owners of its callers.
func Owners(fn *ssa.Function) []*ssa.Function {
	if currentProg != nil && tcallersProg != currentProg {
		tcallersProg, tcallersIndex = currentProg, map[*ssa.Function][]*ssa.Function{}
		for f := range currentProg.AllFuncs {
			Instrs(f, func(in ssa.Instruction) {
				if ci, ok := in.(ssa.CallInstruction); ok {
					if callee := transparentCalleeOf(ci.Common(), f); callee != nil && callee.Parent() == nil {
						tcallersIndex[callee] = append(tcallersIndex[callee], f)
					}
				}
			})
		}
	}
	seen := map[*ssa.Function]bool{}
	var out []*ssa.Function
	var walk func(f *ssa.Function, depth int)
	walk = func(f *ssa.Function, depth int) {
		for f.Parent() != nil {
			f = f.Parent()
		}
		if seen[f] {
			return
		}
		seen[f] = true
		callers := tcallersIndex[f]
		if KnownFunc(FuncQName(f)) || len(callers) == 0 || depth >= 3 {
			out = append(out, f)
			return
		}
		for _, c := range callers {
			walk(c, depth+1)
		}
	}
	walk(fn, 0)
	SortFuncs(out)
	return out
}

// FreeVarBinding: the value a closure's free variable was created with, when the variable is captured by value (go/ssa
// does that for variables never reassigned after the closure is made). nil for by-reference captures (the binding is
// the variable's address) and when the closure is made in several places.
func FreeVarBinding(fv *ssa.FreeVar) ssa.Value {
	f := fv.Parent()
	if f == nil || f.Parent() == nil {
		return nil
	}
	idx := -1
	for i, x := range f.FreeVars {
		if x == fv {
			idx = i
		}
	}
	if idx < 0 {
		return nil
	}
	var found ssa.Value
	n := 0
	Instrs(f.Parent(), func(in ssa.Instruction) {
		if mc, ok := in.(*ssa.MakeClosure); ok && mc.Fn == ssa.Value(f) && idx < len(mc.Bindings) {
			found = mc.Bindings[idx]
			n++
		}
	})
	if n != 1 {
		return nil
	}
	if _, isAddr := found.(*ssa.Alloc); isAddr {
		return nil
	}
	if fv2, isFV := found.(*ssa.FreeVar); isFV {
		if _, isPtr := fv2.Type().(*types.Pointer); isPtr && CellOf(fv2) != nil {
			return nil
		}
	}
	return found
}

// Focus restricts, until the returned function is called, the call sites through which parameters of looked-through
// callees are resolved to those inside fn (its literals and the callees it looks through): a helper shared by two
// handlers is then read in the context of the handler under analysis only.
func Focus(fn *ssa.Function) (restore func()) {
	prev := focusSet
	set := map[*ssa.Function]bool{}
	for _, f := range WithClosures(fn) {
		set[f] = true
	}
	for _, h := range transparentCalleesOf(fn, 3) {
		for _, f := range WithClosures(h) {
			set[f] = true
		}
	}
	for f := range set {
		for _, a := range f.AnonFuncs {
			for _, g := range WithClosures(a) {
				set[g] = true
			}
		}
	}
	focusSet = set
	return func() { focusSet = prev }
}

var focusSet map[*ssa.Function]bool

// IsProtoMessageType: t is the proto.Message interface or a (pointer to a) type with a ProtoReflect method.
func IsProtoMessageType(t types.Type) bool {
	if t == nil {
		return false
	}
	if strings.HasSuffix(t.String(), "proto.Message") || strings.HasSuffix(t.String(), "protoreflect.ProtoMessage") {
		return true
	}
	ms := types.NewMethodSet(t)
	for i := 0; i < ms.Len(); i++ {
		if ms.At(i).Obj().Name() == "ProtoReflect" {
			return true
		}
	}
	return false
}
