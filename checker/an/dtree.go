package an

import (
	"fmt"
	"go/constant"
	"go/token"
	"go/types"
	"sort"
	"strings"

	"golang.org/x/tools/go/ssa"
)

// E4 – decision-table extraction.
//
// DecisionTree abstractly interprets a loop-free SSA function with
// uninterpreted atoms: results of calls, parameters, loads through pointers
// and fields are symbols; the interpreter only evaluates constants, boolean
// connectives, (in)equality between identical symbols / constants and the
// control flow. Whenever a branch depends on a symbol without a value the
// exploration forks (true/false, or over a declared finite domain), so the
// leaves enumerate every path of the function together with the atom
// assignment that selects it, the calls made on the way and a symbolic
// description of what is returned. No code of the repository runs.

// Sym is a symbolic value.
type Sym struct {
	K      string // const | nil | param | atom | field | struct | ptr | unknown
	S      string // canonical text
	B      *bool
	I      *int64
	Cell   *dcell          // for ptr: the pointed-to local/new cell
	Fields map[string]*Sym // for struct: explicit field values
	Base   *Sym            // for struct: the value it was copied from (nil = zero value)
	T      types.Type
	NonNil bool          // known never to be nil (a sentinel error variable)
	Fn     *ssa.Function // for a function constant: the function
}

func (s *Sym) String() string {
	if s == nil {
		return "<nil-sym>"
	}
	return s.S
}

type dcell struct {
	shared string // non-empty: variable written by a closure; loads are opaque and named by this
	id     string
	whole  *Sym            // value stored as a whole (nil = zero)
	fields map[string]*Sym // overrides by field path
	typ    types.Type
}

// CallRec is one call made on a path, with its symbolic arguments.
type CallRec struct {
	Callee string
	Args   []*Sym
	Kind   string // "", "defer", "go"
	Result *Sym
}

// Leaf is one path of the function.
type Leaf struct {
	Recs    []CallRec
	Assign  []string // "atom=value" in the order decided
	AssignM map[string]string
	Returns []*Sym
	Calls   []string // canonical calls in execution order
	Panics  bool
	Blocks  []int
	Undec   string // non-empty: interpretation stopped, reason
	RetPos  token.Pos
}

// Get returns the value assigned to an atom on this leaf ("" when the path
// did not depend on it).
func (l *Leaf) Get(atom string) string { return l.AssignM[atom] }

// Rewrite applies f to every rendered text of the leaf (atoms, calls, returns): used to give the fields of an object
// the names of the values they were built from.
func (l *Leaf) Rewrite(f func(string) string) {
	for i := range l.Assign {
		l.Assign[i] = f(l.Assign[i])
	}
	m := map[string]string{}
	for k, v := range l.AssignM {
		m[f(k)] = v
	}
	l.AssignM = m
	for i := range l.Calls {
		l.Calls[i] = f(l.Calls[i])
	}
	for i, r := range l.Returns {
		if r != nil {
			cp := *r
			cp.S = f(cp.S)
			l.Returns[i] = &cp
		}
	}
}

// DTConfig configures an extraction.
type DTConfig struct {
	// Domains gives finite integer domains for atoms compared with constants,
	// keyed by the atom's canonical text (e.g. "a.ChangeType").
	Domains map[string][]int64
	// Names gives SSA values a canonical name (overrides the default).
	Names map[ssa.Value]string
	// MaxLeaves bounds the exploration (default 4096).
	MaxLeaves int
	// Inline decides which static callees are interpreted in place (bounded depth 3, no recursion)
	// instead of being recorded as atoms. nil = InlineNewHelpers.
	Inline func(caller, callee *ssa.Function) bool
}

// InlineNewHelpers inlines same-package callees that did not exist when the rules were written (see
// known_funcs.txt): a freshly extracted helper is looked through, helpers the rules know stay atoms.
func InlineNewHelpers(caller, callee *ssa.Function) bool {
	if callee.Package() == nil || caller.Package() != callee.Package() || len(callee.Blocks) == 0 {
		return false
	}
	top := callee
	for top.Parent() != nil {
		top = top.Parent()
	}
	return !KnownFunc(FuncQName(top))
}

type dframe struct {
	call   *ssa.Call
	block  *ssa.BasicBlock
	blocks []int
	fn     *ssa.Function
	// calls deferred inside the inlined callee: they run when it returns, i.e. at this point of the caller's path
	deferTexts []string
	deferRecs  []CallRec
}

type dstate struct {
	env    map[ssa.Value]*Sym
	cells  map[ssa.Value]*dcell // Alloc -> cell
	assign map[string]string
	order  []string
	calls  []string
	recs   []CallRec
	ncall  map[string]int
	blocks []int
	stack  []dframe
}

func (st *dstate) clone() *dstate {
	n := &dstate{env: map[ssa.Value]*Sym{}, cells: map[ssa.Value]*dcell{}, assign: map[string]string{}, ncall: map[string]int{}}
	cellMap := map[*dcell]*dcell{}
	for k, c := range st.cells {
		nc := &dcell{id: c.id, whole: c.whole, fields: map[string]*Sym{}, typ: c.typ, shared: c.shared}
		for f, v := range c.fields {
			nc.fields[f] = v
		}
		n.cells[k] = nc
		cellMap[c] = nc
	}
	for k, v := range st.env {
		if v != nil && v.K == "ptr" && v.Cell != nil {
			if nc, ok := cellMap[v.Cell]; ok {
				cp := *v
				cp.Cell = nc
				n.env[k] = &cp
				continue
			}
		}
		n.env[k] = v
	}
	for k, v := range st.assign {
		n.assign[k] = v
	}
	n.order = append([]string{}, st.order...)
	n.calls = append([]string{}, st.calls...)
	n.recs = append([]CallRec{}, st.recs...)
	for k, v := range st.ncall {
		n.ncall[k] = v
	}
	n.blocks = append([]int{}, st.blocks...)
	n.stack = append([]dframe{}, st.stack...)
	return n
}

type dtree struct {
	fn     *ssa.Function
	cfg    DTConfig
	leaves []*Leaf
}

func boolSym(b bool) *Sym {
	s := "false"
	if b {
		s = "true"
	}
	return &Sym{K: "const", S: s, B: &b}
}

func intSym(i int64, t types.Type) *Sym {
	return &Sym{K: "const", S: fmt.Sprintf("%d", i), I: &i, T: t}
}

// DecisionTree extracts the decision tree of fn.
func DecisionTree(fn *ssa.Function, cfg DTConfig) []*Leaf {
	if cfg.MaxLeaves == 0 {
		cfg.MaxLeaves = 4096
	}
	d := &dtree{fn: fn, cfg: cfg}
	if len(fn.Blocks) == 0 {
		return nil
	}
	st := &dstate{env: map[ssa.Value]*Sym{}, cells: map[ssa.Value]*dcell{}, assign: map[string]string{}, ncall: map[string]int{}}
	for _, p := range fn.Params {
		st.env[p] = &Sym{K: "param", S: d.name(p, p.Name()), T: p.Type()}
	}
	for _, fv := range fn.FreeVars {
		// a free variable is the address of a captured variable
		nm := d.name(fv, fv.Name())
		c := &dcell{id: nm, typ: fv.Type(), fields: map[string]*Sym{}}
		c.whole = &Sym{K: "param", S: nm, T: deref(fv.Type())}
		st.cells[fv] = c
		st.env[fv] = &Sym{K: "ptr", S: "&" + nm, Cell: c}
	}
	d.run(st, fn.Blocks[0], nil)
	return d.leaves
}

func deref(t types.Type) types.Type {
	if p, ok := t.Underlying().(*types.Pointer); ok {
		return p.Elem()
	}
	return t
}

func (d *dtree) name(v ssa.Value, def string) string {
	if n, ok := d.cfg.Names[v]; ok {
		return n
	}
	return def
}

func (d *dtree) leaf(st *dstate, l *Leaf) {
	l.Assign = append([]string{}, st.order...)
	l.AssignM = map[string]string{}
	for k, v := range st.assign {
		l.AssignM[k] = v
	}
	l.Calls = append([]string{}, st.calls...)
	l.Recs = append([]CallRec{}, st.recs...)
	l.Blocks = append([]int{}, st.blocks...)
	d.leaves = append(d.leaves, l)
}

func (d *dtree) run(st *dstate, b *ssa.BasicBlock, pred *ssa.BasicBlock) {
	for {
		if len(d.leaves) >= d.cfg.MaxLeaves {
			return
		}
		for _, seen := range st.blocks {
			if seen == b.Index {
				d.leaf(st, &Leaf{Undec: fmt.Sprintf("loop: block %d visited twice", b.Index)})
				return
			}
		}
		st.blocks = append(st.blocks, b.Index)
		var next *ssa.BasicBlock
		for _, in := range b.Instrs {
			switch x := in.(type) {
			case *ssa.Phi:
				for i, p := range b.Preds {
					if p == pred {
						st.env[x] = d.eval(st, x.Edges[i])
					}
				}
			case *ssa.If:
				n, forked := d.doIf(st, b, x)
				if forked {
					return
				}
				next = n
			case *ssa.Jump:
				next = b.Succs[0]
			case *ssa.Return:
				if d.popFrame(st, x) {
					return
				}
				l := &Leaf{RetPos: x.Pos()}
				for _, r := range x.Results {
					l.Returns = append(l.Returns, d.describe(st, d.eval(st, r)))
				}
				d.leaf(st, l)
				return
			case *ssa.Panic:
				d.leaf(st, &Leaf{Panics: true, RetPos: x.Pos()})
				return
			default:
				// a comparison of a domain atom with a constant forks over the domain
				if forked := d.exec(st, in, b); forked {
					return
				}
			}
		}
		if next == nil {
			d.leaf(st, &Leaf{Undec: "block without terminator"})
			return
		}
		pred = b
		b = next
	}
}

// doIf decides a conditional branch or forks on its atom.
func (d *dtree) doIf(st *dstate, b *ssa.BasicBlock, x *ssa.If) (*ssa.BasicBlock, bool) {
	cond := d.eval(st, x.Cond)
	if v, ok := d.boolOf(st, cond); ok {
		if v {
			return b.Succs[0], false
		}
		return b.Succs[1], false
	}
	atom, neg := cond.S, false
	for strings.HasPrefix(atom, "!") {
		atom = atom[1:]
		neg = !neg
	}
	for _, val := range []bool{true, false} {
		ns := st.clone()
		ns.assign[atom] = fmt.Sprint(val)
		ns.order = append(ns.order, atom+"="+fmt.Sprint(val))
		if val != neg {
			d.run(ns, b.Succs[0], b)
		} else {
			d.run(ns, b.Succs[1], b)
		}
	}
	return nil, true
}

// exec interprets a non-terminator instruction. Returns true when it forked
// (the continuation was already explored).
func (d *dtree) exec(st *dstate, in ssa.Instruction, b *ssa.BasicBlock) bool {
	switch x := in.(type) {
	case *ssa.Alloc:
		c := &dcell{id: "cell:" + x.Name(), typ: deref(x.Type()), fields: map[string]*Sym{}}
		// a variable captured and written by a closure can change at any call: keep it opaque
		for _, stc := range StoresTo(&Cell{x}) {
			if stc.Parent() != x.Parent() {
				c.shared = d.name(x, x.Comment)
			}
		}
		st.cells[x] = c
		st.env[x] = &Sym{K: "ptr", S: "&" + x.Name(), Cell: c, T: x.Type()}
	case *ssa.Store:
		addr := d.eval(st, x.Addr)
		val := d.eval(st, x.Val)
		d.store(st, addr, val)
	case *ssa.DebugRef, *ssa.RunDefers:
	case *ssa.Defer:
		t, rec := d.callRec(st, x.Common())
		if n := len(st.stack); n > 0 {
			// inside an inlined callee: runs when the callee returns (see popFrame)
			fr := st.stack[n-1]
			fr.deferTexts = append(append([]string{}, fr.deferTexts...), t)
			fr.deferRecs = append(append([]CallRec{}, fr.deferRecs...), rec)
			st.stack[n-1] = fr
			break
		}
		rec.Kind = "defer"
		st.recs = append(st.recs, rec)
		st.calls = append(st.calls, "defer "+t)
	case *ssa.Go:
		t, rec := d.callRec(st, x.Common())
		rec.Kind = "go"
		st.recs = append(st.recs, rec)
		st.calls = append(st.calls, "go "+t)
	case *ssa.MapUpdate:
		st.calls = append(st.calls, fmt.Sprintf("mapupdate %s[%s]=%s", d.eval(st, x.Map), d.eval(st, x.Key), d.eval(st, x.Value)))
	case *ssa.Send:
		st.calls = append(st.calls, fmt.Sprintf("send %s<-%s", d.eval(st, x.Chan), d.eval(st, x.X)))
	case *ssa.Call:
		cal := x.Call.StaticCallee()
		literal := false
		if cal == nil && !x.Call.IsInvoke() {
			// a capture-free function literal that reached this call as a value (a predicate handed to a helper that
			// is being interpreted in place): on this path the call runs that literal
			if sy := d.eval(st, x.Call.Value); sy != nil && sy.Fn != nil && sy.Fn.Parent() != nil && len(sy.Fn.FreeVars) == 0 {
				cal, literal = sy.Fn, true
			}
		}
		if cal != nil && len(cal.Blocks) > 0 && len(st.stack) < 3 && len(cal.Params) == len(x.Call.Args) {
			inline := d.cfg.Inline
			if inline == nil {
				inline = InlineNewHelpers
			}
			if literal {
				inline = func(_, _ *ssa.Function) bool { return true }
			}
			onStack := cal == d.fn
			for _, fr := range st.stack {
				if fr.fn == cal {
					onStack = true
				}
			}
			// a helper with a loop cannot be interpreted path by path: it stays an opaque call
			if !onStack && inline(d.fn, cal) && !hasBackEdge(cal) {
				for i, p := range cal.Params {
					st.env[p] = d.eval(st, x.Call.Args[i])
				}
				st.stack = append(st.stack, dframe{call: x, block: b, blocks: st.blocks, fn: cal})
				st.blocks = nil
				d.run(st, cal.Blocks[0], nil)
				return true
			}
		}
		st.env[x] = d.evalInstr(st, x)
	case ssa.Value:
		// domain fork: BinOp comparing a domain atom with a constant
		if bo, ok := x.(*ssa.BinOp); ok && (bo.Op == token.EQL || bo.Op == token.NEQ) {
			l, r := d.eval(st, bo.X), d.eval(st, bo.Y)
			var atom *Sym
			if l.I == nil && r.I != nil {
				atom = l
			} else if r.I == nil && l.I != nil {
				atom = r
			}
			if atom != nil {
				if dom, ok := d.cfg.Domains[atom.S]; ok {
					if _, assigned := st.assign[atom.S]; !assigned {
						// fork over the domain, re-executing this block from this instruction
						for _, v := range dom {
							ns := st.clone()
							ns.assign[atom.S] = fmt.Sprint(v)
							ns.order = append(ns.order, fmt.Sprintf("%s=%d", atom.S, v))
							d.resume(ns, b, in)
						}
						return true
					}
				}
			}
		}
		st.env[x] = d.evalInstr(st, x)
	}
	return false
}

// resume continues interpreting block b starting at instruction `from`.
func (d *dtree) resume(st *dstate, b *ssa.BasicBlock, from ssa.Instruction) {
	d.resumeFrom(st, b, from, false)
}

// popFrame: a return inside an inlined callee hands its results to the call and continues the caller.
func (d *dtree) popFrame(st *dstate, x *ssa.Return) bool {
	if len(st.stack) == 0 {
		return false
	}
	fr := st.stack[len(st.stack)-1]
	st.stack = st.stack[:len(st.stack)-1]
	var res *Sym
	if len(x.Results) == 1 {
		res = d.eval(st, x.Results[0])
	} else {
		res = &Sym{K: "tuple", S: "tuple " + fr.call.Name(), Fields: map[string]*Sym{}}
		for i, r := range x.Results {
			res.Fields[fmt.Sprint(i)] = d.eval(st, r)
		}
	}
	for i := len(fr.deferTexts) - 1; i >= 0; i-- {
		st.calls = append(st.calls, fr.deferTexts[i])
		st.recs = append(st.recs, fr.deferRecs[i])
	}
	st.env[fr.call] = res
	st.blocks = fr.blocks
	d.resumeFrom(st, fr.block, fr.call, true)
	return true
}

func (d *dtree) resumeFrom(st *dstate, b *ssa.BasicBlock, from ssa.Instruction, after bool) {
	// emulate run() for the rest of this block, then continue normally
	started := false
	var next *ssa.BasicBlock
	for _, in := range b.Instrs {
		if in == from {
			started = true
			if after {
				continue
			}
		}
		if !started {
			continue
		}
		switch x := in.(type) {
		case *ssa.If:
			n, forked := d.doIf(st, b, x)
			if forked {
				return
			}
			next = n
		case *ssa.Jump:
			next = b.Succs[0]
		case *ssa.Return:
			if d.popFrame(st, x) {
				return
			}
			l := &Leaf{RetPos: x.Pos()}
			for _, r := range x.Results {
				l.Returns = append(l.Returns, d.describe(st, d.eval(st, r)))
			}
			d.leaf(st, l)
			return
		case *ssa.Panic:
			d.leaf(st, &Leaf{Panics: true, RetPos: x.Pos()})
			return
		case *ssa.Phi:
		default:
			if d.exec(st, in, b) {
				return
			}
		}
	}
	if next != nil {
		d.run(st, next, b)
	}
}

func (d *dtree) store(st *dstate, addr, val *Sym) {
	if addr.K != "ptr" || addr.Cell == nil {
		st.calls = append(st.calls, fmt.Sprintf("store *%s=%s", addr, val))
		return
	}
	path := ""
	if i := strings.Index(addr.S, "|"); i >= 0 {
		path = addr.S[i+1:]
	}
	if path == "" {
		addr.Cell.whole = val
		addr.Cell.fields = map[string]*Sym{}
		if !strings.HasPrefix(addr.Cell.id, "cell:") {
			st.calls = append(st.calls, fmt.Sprintf("store %s=%s", addr.Cell.id, val))
			st.recs = append(st.recs, CallRec{Callee: "store " + addr.Cell.id, Args: []*Sym{val}})
		}
		return
	}
	// drop overrides below this path
	for k := range addr.Cell.fields {
		if strings.HasPrefix(k, path+".") {
			delete(addr.Cell.fields, k)
		}
	}
	addr.Cell.fields[path] = val
	if !strings.HasPrefix(addr.Cell.id, "cell:") {
		// store through a captured variable is visible outside: record as effect
		st.calls = append(st.calls, fmt.Sprintf("store %s.%s=%s", addr.Cell.id, path, val))
	}
}

func (d *dtree) load(st *dstate, addr *Sym) *Sym {
	if addr.K == "ptr" && addr.Cell != nil {
		path := ""
		if i := strings.Index(addr.S, "|"); i >= 0 {
			path = addr.S[i+1:]
		}
		c := addr.Cell
		if c.shared != "" {
			if path == "" {
				return &Sym{K: "param", S: c.shared}
			}
			return &Sym{K: "field", S: c.shared + "." + path}
		}
		if path == "" {
			return d.cellValue(c)
		}
		if v, ok := c.fields[path]; ok {
			return v
		}
		// is a prefix overridden as a whole?
		parts := strings.Split(path, ".")
		for i := len(parts) - 1; i > 0; i-- {
			pre := strings.Join(parts[:i], ".")
			if v, ok := c.fields[pre]; ok {
				return fieldOf(v, strings.Join(parts[i:], "."))
			}
		}
		if c.whole == nil {
			return &Sym{K: "const", S: "zero", T: nil}
		}
		return fieldOf(c.whole, path)
	}
	// load through an opaque pointer: *p or p.f
	if strings.HasPrefix(addr.S, "&") {
		return &Sym{K: "field", S: addr.S[1:]}
	}
	return &Sym{K: "field", S: "*" + addr.S}
}

func fieldOf(v *Sym, path string) *Sym {
	if v.K == "struct" {
		if f, ok := v.Fields[path]; ok {
			return f
		}
		if v.Base == nil {
			return &Sym{K: "const", S: "zero"}
		}
		return fieldOf(v.Base, path)
	}
	if v.K == "const" && v.S == "zero" {
		return v
	}
	return &Sym{K: "field", S: v.S + "." + path}
}

// cellValue renders the whole value of a cell including field overrides.
func (d *dtree) cellValue(c *dcell) *Sym {
	if len(c.fields) == 0 {
		if c.whole == nil {
			return &Sym{K: "const", S: "zero"}
		}
		return c.whole
	}
	s := &Sym{K: "struct", Fields: map[string]*Sym{}, Base: c.whole}
	var ks []string
	for k, v := range c.fields {
		s.Fields[k] = v
		ks = append(ks, k)
	}
	sort.Strings(ks)
	var parts []string
	for _, k := range ks {
		parts = append(parts, k+":"+c.fields[k].S)
	}
	base := "zero"
	if c.whole != nil {
		base = c.whole.S
	}
	s.S = base + "{" + strings.Join(parts, ",") + "}"
	return s
}

// describe turns pointers to local cells into a description of the pointee.
func (d *dtree) describe(st *dstate, s *Sym) *Sym {
	if s.K == "ptr" && s.Cell != nil && !strings.Contains(s.S, "|") {
		v := d.cellValue(s.Cell)
		cp := *v
		cp.S = "&" + v.S
		if cp.K != "struct" {
			cp.K = "struct"
			cp.Fields = map[string]*Sym{}
			cp.Base = v
		}
		return &cp
	}
	return s
}

func (d *dtree) eval(st *dstate, v ssa.Value) *Sym {
	if s, ok := st.env[v]; ok {
		return s
	}
	switch x := v.(type) {
	case *ssa.Const:
		if x.Value == nil {
			if isBasic(x.Type()) {
				return &Sym{K: "const", S: "zero", T: x.Type()}
			}
			return &Sym{K: "nil", S: "nil", T: x.Type()}
		}
		switch x.Value.Kind() {
		case constant.Bool:
			return boolSym(constant.BoolVal(x.Value))
		case constant.Int:
			return intSym(x.Int64(), x.Type())
		case constant.String:
			return &Sym{K: "const", S: x.Value.ExactString(), T: x.Type()}
		}
		return &Sym{K: "const", S: x.Value.ExactString(), T: x.Type()}
	case *ssa.Global:
		return &Sym{K: "ptr", S: "&" + x.Pkg.Pkg.Name() + "." + x.Name()}
	case *ssa.Function:
		return &Sym{K: "const", S: "func " + FuncName(x), Fn: x}
	case *ssa.Builtin:
		return &Sym{K: "const", S: "builtin " + x.Name()}
	case *ssa.Parameter:
		return &Sym{K: "param", S: x.Name(), T: x.Type()}
	}
	return &Sym{K: "unknown", S: "?" + v.Name()}
}

func (d *dtree) callText(st *dstate, cc *ssa.CallCommon) string {
	t, _ := d.callRec(st, cc)
	return t
}

func (d *dtree) callRec(st *dstate, cc *ssa.CallCommon) (string, CallRec) {
	var args []string
	var rec CallRec
	for _, a := range cc.Args {
		sy := d.describe(st, d.eval(st, a))
		rec.Args = append(rec.Args, sy)
		args = append(args, sy.S)
	}
	var callee string
	if cc.IsInvoke() {
		callee = d.eval(st, cc.Value).S + "." + cc.Method.Name()
	} else {
		switch f := cc.Value.(type) {
		case *ssa.Function:
			callee = ModRel(FuncQName(f))
		case *ssa.Builtin:
			callee = f.Name()
		case *ssa.MakeClosure:
			callee = FuncName(f.Fn.(*ssa.Function))
		default:
			sy := d.eval(st, cc.Value)
			callee = sy.S
			if sy.Fn != nil {
				// a function kept in a variable (`single = ExecuteOne` … `single(ctx, members)`): on this path it is that function
				callee = ModRel(FuncQName(sy.Fn))
			}
		}
	}
	rec.Callee = callee
	return callee + "(" + strings.Join(args, ", ") + ")", rec
}

func (d *dtree) evalInstr(st *dstate, v ssa.Value) *Sym {
	switch x := v.(type) {
	case *ssa.Call:
		txt, rec := d.callRec(st, &x.Call)
		st.ncall[txt]++
		name := "call " + txt
		if n := st.ncall[txt]; n > 1 {
			name = fmt.Sprintf("call#%d %s", n, txt)
		}
		if short, ok := d.cfg.Names[x]; ok {
			name = short
		}
		st.calls = append(st.calls, txt)
		res := &Sym{K: "atom", S: name, T: x.Type()}
		rec.Result = res
		st.recs = append(st.recs, rec)
		return res
	case *ssa.UnOp:
		o := d.eval(st, x.X)
		switch x.Op {
		case token.MUL:
			if g, ok := x.X.(*ssa.Global); ok && GlobalAlwaysNonNil(g) {
				v := *d.load(st, o)
				v.NonNil = true
				return &v
			}
			return d.load(st, o)
		case token.NOT:
			if o.B != nil {
				return boolSym(!*o.B)
			}
			if val, ok := st.assign[o.S]; ok {
				return boolSym(val != "true")
			}
			return &Sym{K: "atom", S: "!" + o.S}
		case token.SUB:
			if o.I != nil {
				return intSym(-*o.I, x.Type())
			}
			return &Sym{K: "atom", S: "-" + o.S}
		case token.ARROW:
			return &Sym{K: "atom", S: "<-" + o.S}
		}
		return &Sym{K: "unknown", S: x.Op.String() + o.S}
	case *ssa.BinOp:
		return d.binop(st, x)
	case *ssa.FieldAddr:
		base := d.eval(st, x.X)
		f := fieldName(x.X.Type(), x.Field)
		if base.K == "ptr" && base.Cell != nil {
			p := f
			if i := strings.Index(base.S, "|"); i >= 0 {
				p = base.S[i+1:] + "." + f
				return &Sym{K: "ptr", S: base.S[:i] + "|" + p, Cell: base.Cell}
			}
			return &Sym{K: "ptr", S: base.S + "|" + p, Cell: base.Cell}
		}
		// field of an object behind an opaque pointer
		return &Sym{K: "ptr", S: "&" + strings.TrimPrefix(base.S, "&") + "." + f}
	case *ssa.Field:
		base := d.eval(st, x.X)
		return fieldOf(base, fieldName(x.X.Type(), x.Field))
	case *ssa.MakeInterface:
		return d.eval(st, x.X)
	case *ssa.ChangeType:
		return d.eval(st, x.X)
	case *ssa.ChangeInterface:
		return d.eval(st, x.X)
	case *ssa.Convert:
		return d.eval(st, x.X)
	case *ssa.Extract:
		t := d.eval(st, x.Tuple)
		if t.K == "tuple" {
			if f, ok := t.Fields[fmt.Sprint(x.Index)]; ok {
				return f
			}
		}
		s := &Sym{K: "atom", S: fmt.Sprintf("%s#%d", t.S, x.Index)}
		return s
	case *ssa.TypeAssert:
		o := d.eval(st, x.X)
		if x.CommaOk {
			return &Sym{K: "atom", S: fmt.Sprintf("%s.(%s)", o.S, types.TypeString(x.AssertedType, shortQual))}
		}
		return o
	case *ssa.Lookup:
		// a map can change between two lookups of the same key (other goroutines, calls in between):
		// every lookup is its own atom, later ones are numbered
		txt := fmt.Sprintf("%s[%s]", d.eval(st, x.X), d.eval(st, x.Index))
		st.ncall["lookup "+txt]++
		if n := st.ncall["lookup "+txt]; n > 1 {
			txt = fmt.Sprintf("@%d %s", n, txt)
		}
		st.calls = append(st.calls, "lookup "+txt)
		return &Sym{K: "atom", S: txt}
	case *ssa.MakeClosure:
		return &Sym{K: "const", S: "closure " + FuncName(x.Fn.(*ssa.Function))}
	case *ssa.IndexAddr:
		return &Sym{K: "ptr", S: fmt.Sprintf("&%s[%s]", strings.TrimPrefix(d.eval(st, x.X).S, "&"), d.eval(st, x.Index))}
	case *ssa.Index:
		return &Sym{K: "field", S: fmt.Sprintf("%s[%s]", d.eval(st, x.X), d.eval(st, x.Index))}
	case *ssa.Slice:
		lo, hi := "", ""
		if x.Low != nil {
			lo = d.eval(st, x.Low).S
		}
		if x.High != nil {
			hi = d.eval(st, x.High).S
		}
		return &Sym{K: "field", S: fmt.Sprintf("%s[%s:%s]", strings.TrimPrefix(d.describe(st, d.eval(st, x.X)).S, "&"), lo, hi)}
	case *ssa.MakeMap, *ssa.MakeSlice, *ssa.MakeChan:
		return &Sym{K: "const", S: "fresh " + v.Name()}
	case *ssa.Phi:
		return &Sym{K: "unknown", S: "phi " + v.Name()}
	}
	return &Sym{K: "unknown", S: "?" + v.Name()}
}

func shortQual(p *types.Package) string { return p.Name() }

func (d *dtree) boolOf(st *dstate, s *Sym) (bool, bool) {
	if s.B != nil {
		return *s.B, true
	}
	atom, neg := s.S, false
	for strings.HasPrefix(atom, "!") {
		atom = atom[1:]
		neg = !neg
	}
	if v, ok := st.assign[atom]; ok {
		return (v == "true") != neg, true
	}
	return false, false
}

func (d *dtree) intOf(st *dstate, s *Sym) (int64, bool) {
	if s.I != nil {
		return *s.I, true
	}
	if v, ok := st.assign[s.S]; ok {
		var i int64
		if _, err := fmt.Sscan(v, &i); err == nil {
			return i, true
		}
	}
	return 0, false
}

func (d *dtree) binop(st *dstate, x *ssa.BinOp) *Sym {
	l, r := d.eval(st, x.X), d.eval(st, x.Y)
	li, lok := d.intOf(st, l)
	ri, rok := d.intOf(st, r)
	if lok && rok {
		switch x.Op {
		case token.EQL:
			return boolSym(li == ri)
		case token.NEQ:
			return boolSym(li != ri)
		case token.LSS:
			return boolSym(li < ri)
		case token.LEQ:
			return boolSym(li <= ri)
		case token.GTR:
			return boolSym(li > ri)
		case token.GEQ:
			return boolSym(li >= ri)
		case token.ADD:
			return intSym(li+ri, x.Type())
		case token.SUB:
			return intSym(li-ri, x.Type())
		case token.MUL:
			return intSym(li*ri, x.Type())
		}
	}
	lb, lbok := d.boolOf(st, l)
	rb, rbok := d.boolOf(st, r)
	if lbok && rbok {
		switch x.Op {
		case token.EQL:
			return boolSym(lb == rb)
		case token.NEQ:
			return boolSym(lb != rb)
		case token.AND, token.LAND:
			return boolSym(lb && rb)
		case token.OR, token.LOR:
			return boolSym(lb || rb)
		}
	}
	switch x.Op {
	case token.EQL, token.NEQ:
		eq := x.Op == token.EQL
		if l.S == r.S && l.K != "unknown" {
			return boolSym(eq)
		}
		if (l.K == "nil" && r.NonNil) || (r.K == "nil" && l.NonNil) {
			return boolSym(!eq)
		}
		// nil vs a fresh local object
		if (l.K == "nil" && r.K == "ptr" && r.Cell != nil) || (r.K == "nil" && l.K == "ptr" && l.Cell != nil) {
			return boolSym(!eq)
		}
		// proto.Clone(x) is nil exactly when x is: when the path already knows about x, the clone follows
		if l.K == "nil" || r.K == "nil" {
			other := l
			if l.K == "nil" {
				other = r
			}
			if strings.HasPrefix(other.S, "call ") && strings.Contains(other.S, "proto.Clone(") && strings.HasSuffix(other.S, ")") {
				arg := other.S[strings.Index(other.S, "proto.Clone(")+len("proto.Clone(") : len(other.S)-1]
				if v, ok := st.assign[arg+"==nil"]; ok {
					return boolSym((v == "true") == eq)
				}
			}
		}
		if l.K == "const" && r.K == "const" && l.S != "zero" && r.S != "zero" {
			return boolSym((l.S == r.S) == eq)
		}
		a, b := l.S, r.S
		if b < a && l.K != "nil" && r.K != "nil" {
			a, b = b, a
		}
		if l.K == "nil" {
			a, b = r.S, l.S
		}
		if eq {
			return &Sym{K: "atom", S: a + "==" + b}
		}
		// express != as negation of the == atom so that both polarities share one atom
		eqAtom := a + "==" + b
		if v, ok := st.assign[eqAtom]; ok {
			return boolSym(v != "true")
		}
		return &Sym{K: "atom", S: "!" + eqAtom}
	}
	// an integer compared with a constant: every spelling becomes `(x < K)` or its negation
	// (x <= k is x < k+1, x > k is !(x < k+1), x >= k is !(x < k), and mirrored when the constant is on the left)
	if isIntegerType(x.X.Type()) && (lok != rok) {
		switch x.Op {
		case token.LSS, token.LEQ, token.GTR, token.GEQ:
			op, sym, k := x.Op, l, ri
			if lok { // k op x  ==  x op' k
				sym, k = r, li
				op = map[token.Token]token.Token{token.LSS: token.GTR, token.LEQ: token.GEQ, token.GTR: token.LSS, token.GEQ: token.LEQ}[op]
			}
			neg := false
			switch op {
			case token.LEQ:
				k++
			case token.GTR:
				k++
				neg = true
			case token.GEQ:
				neg = true
			}
			atom := fmt.Sprintf("(%s < %d)", sym.S, k)
			if v, ok := st.assign[atom]; ok {
				return boolSym((v == "true") != neg)
			}
			if neg {
				return &Sym{K: "atom", S: "!" + atom}
			}
			return &Sym{K: "atom", S: atom}
		}
	}
	switch x.Op {
	case token.GTR, token.GEQ:
		// x > y is the negation of x <= y (x >= y of x < y): both spellings share one atom
		pos := token.LEQ
		if x.Op == token.GEQ {
			pos = token.LSS
		}
		atom := "(" + l.S + " " + pos.String() + " " + r.S + ")"
		if v, ok := st.assign[atom]; ok {
			return boolSym(v != "true")
		}
		return &Sym{K: "atom", S: "!" + atom}
	case token.LEQ, token.LSS:
		atom := "(" + l.S + " " + x.Op.String() + " " + r.S + ")"
		if v, ok := st.assign[atom]; ok {
			return boolSym(v == "true")
		}
		return &Sym{K: "atom", S: atom}
	}
	return &Sym{K: "atom", S: "(" + l.S + " " + x.Op.String() + " " + r.S + ")"}
}

func isIntegerType(t types.Type) bool {
	b, ok := t.Underlying().(*types.Basic)
	return ok && b.Info()&types.IsInteger != 0
}

// hasBackEdge reports whether fn's control flow graph has a loop.
func hasBackEdge(fn *ssa.Function) bool {
	for _, b := range fn.Blocks {
		for _, s := range b.Succs {
			if s.Dominates(b) {
				return true
			}
		}
	}
	return false
}
