package an

import (
	"encoding/json"
	"fmt"
	"go/token"
	"os"
	"path/filepath"
	"sort"
	"strings"
	"time"
)

// Verdict of one obligation.
type Verdict string

const (
	OK        Verdict = "discharged"
	Violation Verdict = "violation"
	Undecided Verdict = "undecided"
)

// Obligation is one rule instance evaluated on one construct.
type Obligation struct {
	Rule      string   `json:"rule"`      // e.g. R02.2
	Key       string   `json:"key"`       // rule|construct|detail – stable across line changes (G4)
	Construct string   `json:"construct"` // function / call site / table row
	Pos       string   `json:"pos"`       // file:line, for humans only
	Verdict   Verdict  `json:"verdict"`
	Detail    string   `json:"detail,omitempty"`
	Path      []string `json:"path,omitempty"` // for path rules: entry … offending exit
	Trivial   bool     `json:"-"`
}

// Ctx collects the obligations of one property run.
type Ctx struct {
	Prog     *Program
	Property string
	Tier     string

	Obls  []Obligation
	Notes []string
	// counters filled by rules
	Counters map[string]int
	// rule -> minimum number of instances confirmed by hand (G3)
	minInst map[string]int
	// functions looked at by any rule of this run
	funcs map[string]bool
}

func NewCtx(p *Program, property, tier string) *Ctx {
	return &Ctx{Prog: p, Property: property, Tier: tier,
		Counters: map[string]int{}, minInst: map[string]int{}, funcs: map[string]bool{}}
}

func (c *Ctx) add(rule, construct string, pos token.Pos, v Verdict, detail string, path []string) {
	key := rule + "|" + construct
	for _, old := range c.Obls {
		if old.Key == key && old.Verdict == v && old.Detail == detail {
			return // same obligation evaluated twice (e.g. two loads of one field on one line)
		}
	}
	o := Obligation{Rule: rule, Key: key, Construct: construct, Verdict: v, Detail: detail, Path: path}
	if c.Prog != nil {
		o.Pos = c.Prog.Rel(pos)
	}
	c.Obls = append(c.Obls, o)
}

// Ok records a discharged obligation.
func (c *Ctx) Ok(rule, construct string, pos token.Pos, detail string) {
	c.add(rule, construct, pos, OK, detail, nil)
}

// Bad records a violated obligation.
func (c *Ctx) Bad(rule, construct string, pos token.Pos, detail string, path ...string) {
	c.add(rule, construct, pos, Violation, detail, path)
}

// Unk records an obligation that could not be decided (fails the check, G2).
func (c *Ctx) Unk(rule, construct string, pos token.Pos, detail string) {
	c.add(rule, construct, pos, Undecided, detail, nil)
}

// Check records ok when cond holds and a violation otherwise.
func (c *Ctx) Check(cond bool, rule, construct string, pos token.Pos, okDetail, badDetail string, path ...string) bool {
	if cond {
		c.Ok(rule, construct, pos, okDetail)
	} else {
		c.Bad(rule, construct, pos, badDetail, path...)
	}
	return cond
}

// Note records information that is not a verdict.
func (c *Ctx) Note(format string, args ...any) {
	c.Notes = append(c.Notes, fmt.Sprintf(format, args...))
}

// Min declares that rule must have produced at least n obligations.
func (c *Ctx) Min(rule string, n int) { c.minInst[rule] = n }

// Count adds to a named coverage counter.
func (c *Ctx) Count(name string, n int) { c.Counters[name] += n }

// SawFunc records that a function was analysed.
func (c *Ctx) SawFunc(name string) { c.funcs[name] = true }

// Finish applies the instance-count floor (G3): a rule with fewer instances
// than confirmed by hand yields an undecided obligation.
func (c *Ctx) Finish() {
	count := map[string]int{}
	for _, o := range c.Obls {
		count[o.Rule]++
	}
	var rules []string
	for r := range c.minInst {
		rules = append(rules, r)
	}
	sort.Strings(rules)
	for _, r := range rules {
		if count[r] < c.minInst[r] {
			c.add(r, "instance-count", token.NoPos, Undecided,
				fmt.Sprintf("rule matched %d instances, at least %d were confirmed by hand on the pinned tree: an anchor disappeared or the rule no longer recognises it", count[r], c.minInst[r]), nil)
		}
	}
}

// ---------------------------------------------------------------- known findings

// Finding is an entry of /verif/known_findings.json.
type Finding struct {
	Property string `json:"property"`
	Key      string `json:"key"`    // obligation key (rule|construct)
	Status   string `json:"status"` // "known" or "fixed"
	What     string `json:"what"`
	Commit   string `json:"commit,omitempty"`
	ID       string `json:"id,omitempty"` // F-n of DESIGN.md
}

type FindingsFile struct {
	Comment  string    `json:"comment"`
	Findings []Finding `json:"findings"`
}

func VerifDir() string {
	if d := os.Getenv("SCVERIF_HOME"); d != "" {
		return d
	}
	return "/verif"
}

func LoadFindings() (*FindingsFile, error) {
	b, err := os.ReadFile(filepath.Join(VerifDir(), "known_findings.json"))
	if err != nil {
		if os.IsNotExist(err) {
			return &FindingsFile{}, nil
		}
		return nil, err
	}
	var f FindingsFile
	if err := json.Unmarshal(b, &f); err != nil {
		return nil, fmt.Errorf("known_findings.json: %w", err)
	}
	return &f, nil
}

// ---------------------------------------------------------------- results

// Result is the outcome of a property run after known findings are applied.
type Result struct {
	Ctx        *Ctx
	New        []Obligation // violations or undecided not listed as known
	Known      []Obligation // violations matching a "known" entry
	KnownWhat  map[string]string
	Discharged int
}

func (c *Ctx) Result(ff *FindingsFile) *Result {
	r := &Result{Ctx: c, KnownWhat: map[string]string{}}
	known := map[string]Finding{}
	for _, f := range ff.Findings {
		if f.Status == "known" && f.Property == c.Property {
			known[f.Key] = f
		}
	}
	for _, o := range c.Obls {
		switch o.Verdict {
		case OK:
			r.Discharged++
		case Violation:
			if f, ok := known[o.Key]; ok {
				r.Known = append(r.Known, o)
				r.KnownWhat[o.Key] = f.What
			} else {
				r.New = append(r.New, o)
			}
		default:
			r.New = append(r.New, o)
		}
	}
	return r
}

// Replay is the content of a replay file.
type Replay struct {
	Property   string     `json:"property"`
	Obligation Obligation `json:"obligation"`
	Tier       string     `json:"tier"`
	Note       string     `json:"note"`
}

// Emit prints the report, writes replay files and the evidence file and
// returns the exit code.
func (r *Result) Emit(start time.Time, seed int, extra map[string]any, explanation string, assumptions []string) int {
	c := r.Ctx
	vdir := VerifDir()
	evdir := filepath.Join(vdir, "evidence")
	if d := os.Getenv("SCVERIF_EVIDENCE_DIR"); d != "" {
		evdir = d // runs against deliberately modified trees (seeded changes) must not overwrite the evidence of the real tree
	}
	rpdir := filepath.Join(evdir, "replay")
	_ = os.MkdirAll(rpdir, 0o755)
	// remove stale replay files of this property
	if old, _ := filepath.Glob(filepath.Join(rpdir, c.Property+"-*.json")); old != nil {
		for _, f := range old {
			_ = os.Remove(f)
		}
	}

	// per rule summary
	type agg struct{ ok, bad, unk int }
	per := map[string]*agg{}
	var rules []string
	for _, o := range c.Obls {
		a := per[o.Rule]
		if a == nil {
			a = &agg{}
			per[o.Rule] = a
			rules = append(rules, o.Rule)
		}
		switch o.Verdict {
		case OK:
			a.ok++
		case Violation:
			a.bad++
		default:
			a.unk++
		}
	}
	sort.Strings(rules)
	fmt.Printf("property %s tier=%s: %d obligations, %d discharged\n", c.Property, c.Tier, len(c.Obls), r.Discharged)
	for _, ru := range rules {
		a := per[ru]
		fmt.Printf("  %-7s ok=%d violation=%d undecided=%d\n", ru, a.ok, a.bad, a.unk)
	}
	for _, n := range c.Notes {
		fmt.Printf("NOTE: %s\n", n)
	}
	for _, o := range r.Known {
		fmt.Printf("KNOWN-FINDING: property=%s %s [%s at %s] %s\n", c.Property, r.KnownWhat[o.Key], o.Key, o.Pos, o.Detail)
	}
	for i, o := range r.New {
		path := filepath.Join(rpdir, fmt.Sprintf("%s-%d.json", c.Property, i+1))
		rp := Replay{Property: c.Property, Obligation: o, Tier: c.Tier,
			Note: "re-evaluate with: /verif/bin/scverif replay " + path}
		b, _ := json.MarshalIndent(rp, "", " ")
		_ = os.WriteFile(path, b, 0o644)
		fmt.Printf("%s %s at %s: %s\n", strings.ToUpper(string(o.Verdict)), o.Key, o.Pos, o.Detail)
		for _, p := range o.Path {
			fmt.Printf("    path: %s\n", p)
		}
		fmt.Printf("VIOLATION property=%s replay=%s\n", c.Property, path)
	}

	// evidence
	distinct := map[string]bool{}
	for _, o := range c.Obls {
		if !o.Trivial {
			distinct[o.Key] = true
		}
	}
	var samples []Obligation
	seenRule := map[string]int{}
	for _, o := range c.Obls {
		if seenRule[o.Rule] < 2 && len(samples) < 40 {
			samples = append(samples, o)
			seenRule[o.Rule]++
		}
	}
	// always include all non-discharged
	for _, o := range c.Obls {
		if o.Verdict != OK && len(samples) < 80 {
			samples = append(samples, o)
		}
	}
	und := 0
	viol := 0
	for _, o := range r.New {
		if o.Verdict == Undecided {
			und++
		} else {
			viol++
		}
	}
	var fnames []string
	for f := range c.funcs {
		fnames = append(fnames, f)
	}
	sort.Strings(fnames)
	perRule := map[string]map[string]int{}
	for ru, a := range per {
		perRule[ru] = map[string]int{"discharged": a.ok, "violation": a.bad, "undecided": a.unk}
	}
	cov := map[string]any{
		"explanation":         explanation,
		"rule":                "one obligation per (rule, construct) found by resolving the rule's anchors in the type-checked SSA program of /repo's working tree; distinct = distinct obligation keys",
		"obligations":         len(c.Obls),
		"discharged":          r.Discharged,
		"undecided":           und,
		"known_findings":      len(r.Known),
		"evaluations":         len(c.Obls),
		"distinct_nontrivial": len(distinct),
		"per_rule":            perRule,
		"functions_analysed":  len(fnames),
		"functions":           fnames,
		"packages":            len(c.Prog.Pkgs),
		"ssa_functions":       len(c.Prog.AllFuncs),
		"samples":             samples,
		"notes":               c.Notes,
		"checker_cmd":         fmt.Sprintf("/verif/bin/scverif check %s --tier %s", c.Property, c.Tier),
		"trusted_base": []string{"go/types, go/ssa (golang.org/x/tools v0.29.0)", "summaries of third-party functions listed in DESIGN.md G7",
			"the rule set encodes necessary structural conditions only; behaviour itself is not decided"},
		"exhaustive": false,
	}
	for k, v := range c.Counters {
		cov[k] = v
	}
	for k, v := range extra {
		cov[k] = v
	}
	ev := map[string]any{
		"property_id": c.Property,
		"tier":        c.Tier,
		"seed":        seed,
		"level":       "other",
		"coverage":    cov,
		"assumptions": assumptions,
		"wall_s":      time.Since(start).Seconds(),
		"violations":  len(r.New),
	}
	b, _ := json.MarshalIndent(ev, "", " ")
	if err := os.WriteFile(filepath.Join(evdir, c.Property+".json"), b, 0o644); err != nil {
		fmt.Fprintf(os.Stderr, "cannot write evidence: %v\n", err)
		return 2
	}
	if len(r.New) > 0 {
		return 1
	}
	return 0
}
